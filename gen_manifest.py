#!/usr/bin/env python3
"""Regenerates MANIFEST.json from checks_meta.META (single source of truth)."""
import json, os, subprocess
HERE = os.path.dirname(os.path.abspath(__file__))
import sys
sys.path.insert(0, HERE)
from checks_meta import META, COMMON_ASSUME

ids = [json.loads(l)["id"] for l in open(os.path.join(HERE, "properties.jsonl"))]
hook_commits = subprocess.run(["git", "-C", "/repo", "log", "--format=%H", "--", "verif_hooks.go"], capture_output=True, text=True).stdout.split()
m = {
    "version": 1,
    "setup_cmd": "cd /verif/harness && GOFLAGS=-mod=mod GOPROXY=off GOSUMDB=off GOTOOLCHAIN=local go vet -tags verif . && GOFLAGS=-mod=mod GOPROXY=off GOSUMDB=off GOTOOLCHAIN=local go test -c -race -gcflags=all=-l -tags verif -o /dev/null .",
    "hooks": {
        "guard": "verif",
        "enable": "go test -c -tags verif (harness module /verif/harness replaces pgregory.net/rapid => /repo; the only hook file is /repo/verif_hooks.go, //go:build verif)",
        "baseline_off_cmd": "cd /repo && GOFLAGS=-mod=mod GOPROXY=off GOSUMDB=off GOTOOLCHAIN=local go test -vet=off -count=1 ./...",
        "source_commits": hook_commits,
        "add_only": True,
    },
    "engines": [{
        "name": "harness",
        "path": "/verif/harness",
        "serves_properties": [i for i in ids if i in META],
        "kind_free_text": "Go test binary (tags verif, -race for C14/C15) executing the real library under generated programs, hostile bitstreams, "
                          "fault injection and goroutine stress, with monitors over TB events, invocation logs, stream snapshots, files and race reports; "
                          "python runner ./check shards it over 16 processes and merges evidence",
    }],
    "checks": [],
    "notes": "Family: runtime monitoring and sanitizers. Exit 0 held / 1 VIOLATION / 2 machinery broken or observed nothing. See DESIGN.md.",
    "not_applicable": [],
}
for i in ids:
    if i in META and not META[i].get("unclaimed"):
        x = META[i]
        m["checks"].append({
            "property_id": i,
            "quick_cmd": "./check %s quick" % i,
            "thorough_cmd": "./check %s thorough" % i,
            "evidence_file": "/verif/evidence/%s.json" % i,
            "replay_cmd_template": "./check %s --replay {path}" % i,
            "engine": "harness",
            "level_claimed": {"category": x["level"], "text": x["level_text"], "design_ref": x.get("design_ref", "DESIGN.md §5 " + i)},
            "level_note": x.get("level_note", "; ".join(x.get("assumptions", COMMON_ASSUME))),
            "technique": x["technique"],
        })
    else:
        m["not_applicable"].append({"property_id": i, "reason": "monitor not built yet in this round (planned, see DESIGN.md §5)"})
json.dump(m, open(os.path.join(HERE, "MANIFEST.json"), "w"), indent=1)
print("checks:", [c["property_id"] for c in m["checks"]], "n/a:", len(m["not_applicable"]))
