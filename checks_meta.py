# Per-property metadata used by ./check when merging shard results into
# evidence/<id>.json.  "evaluations": counters summed into coverage.evaluations;
# "required": counters that must be > 0 or the run is reported as broken
# (observed nothing); "show": counters echoed on stdout.

COMMON_ASSUME = [
    "Go 1.23.5 runtime; harness module declares go 1.23 (panic(nil) is visible as *runtime.PanicNilError)",
    "generated programs/properties are deterministic functions of their draws (by construction)",
    "verif_hooks.go accessors (build tag verif) only read state or call existing internals",
]

def post_c08(c):
    """'an action that skips is not counted as a step': with every second attempt skipping before
    drawing, the mean number of completed actions per case must stay near -rapid.steps=S
    (skips counted as steps would give S/2).  Margin > 8 sigma, see DESIGN.md C08."""
    out = []
    for S, key in ((5, "steps=5"), (30, "steps=30"), (20, "steps=40short")):
        cases = c.get("stat_cases:" + key, 0)
        if cases < 3000:
            continue
        mean = c.get("stat_completed:" + key, 0) / cases
        c["stat_mean_completed_x100:" + key] = int(mean * 100)
        if not (0.8 * S <= mean <= 1.25 * S):
            out.append(("mean number of completed actions per case is %.2f where %d are expected (%s) over %d cases (skipped actions counted as steps? -short not halving exactly once?)" % (mean, S, key, cases),
                        "c08/step-mean", {"steps": S, "cases": cases, "mean_completed": mean,
                                          "mean_attempts": c.get("stat_attempts:" + key, 0) / cases}))
    return out


def post_c18(c, digests):
    """freshness across processes: the case sequences of all Check calls without -rapid.seed, from all shard
    processes, must be pairwise different."""
    vals = {}
    for k, vs in digests.items():
        if k.startswith("freshseq/"):
            for v in vs:
                vals.setdefault(v, []).append(k)
    c["fresh_sequences_compared_across_processes"] = sum(len(v) for v in vals.values())
    out = []
    for v, ks in vals.items():
        if len(ks) > 1:
            out.append(("Check calls without -rapid.seed generated the same case sequence: %s" % ks[:4], "c18/not-fresh-across", {"keys": ks[:10]}))
    return out


META = {
    "C03": {
        "level": "exploration",
        "evaluations": ["fuzz_cases", "prng_cases", "example_cases"],
        "required": ["fuzz_cases", "prng_cases", "values_checked", "fuzz_passed", "fuzz_skipped", "long_values_checked", "long_failing_checks"],
        "show": ["values_checked", "fuzz_passed", "fuzz_skipped", "fuzz_failed"],
        "rule": "random generator expressions (depth<=3, every public constructor, extreme parameters) each driven by hostile byte strings "
                "through MakeFuzz and by the PRNG through Check/Example; every returned value is checked against the per-node contract; "
                "non-trivial+distinct = distinct (expression, returned value) pairs whose value was returned and contract-checked",
        "assumptions": COMMON_ASSUME + ["the contract checkers in harness/genx_test.go state the documented contracts"],
        "level_text": "Runtime contract monitor: held on every value returned in the executions produced (hundreds of thousands of "
                      "MakeFuzz cases on hostile word patterns plus PRNG-driven Check/Example runs over thousands of random generator "
                      "expressions with extreme parameters); says nothing about expressions or bitstreams not generated.",
        "technique": "runtime contract monitor over fuzzed bitstreams (MakeFuzz sub-tests + PRNG), per-node oracles, hang watchdog",
    },
    "C01": {
        "level": "exploration",
        "evaluations": ["checks_run"],
        "required": ["failures_reported", "failures_reported:cut0", "failures_reported:full", "failures_reported:midcut", "candidates_accepted", "phase:reproduce"],
        "show": ["failures_reported", "candidates_tried", "candidates_accepted", "invocations"],
        "rule": "random programs (property functions built from a PRNG seed: rejection-heavy generators, 1-3 failure sites of 13 failure kinds, "
                "Repeat machines with skipping actions, cleanups, goroutines) x 6 configurations (shrinktime 0 / run to completion / deterministic "
                "mid-round cut after K candidates, checks 1/5/100, fail files on/off, verbose); each rapid.Check is judged on TB events, the "
                "per-invocation log and the fail file; non-trivial+distinct = distinct (program, configuration) pairs in which a failure was "
                "reported and at least one minimisation candidate was executed",
        "assumptions": COMMON_ASSUME,
        "level_text": "Runtime monitor of the real Check over thousands of generated programs and cut points: the reported case is replayed "
                      "by rapid itself and the harness property records what really happened, so 'reported failure is real', 'message names a "
                      "failure of the final replay', 'logged draws = received draws', 'fail file = final bitstream' are decided per execution. "
                      "Held on the executions produced only.",
        "technique": "runtime monitoring: recording fake TB + instrumented property functions, oracle over per-invocation logs, deterministic shrink cut points",
    },
    "C05": {
        "level": "exploration",
        "evaluations": ["checks_run"],
        "required": ["failures_reported", "accepted_steps", "unlimited_runs_terminated", "runs_where_other_sites_fired"],
        "show": ["failures_reported", "accepted_steps", "runs_where_other_sites_fired", "unlimited_runs_terminated", "max:invocations_one_check"],
        "rule": "random programs with 2-4 distinct failure sites (incl. programs whose minimum has equal sibling groups) x cut settings "
                "(shrinktime 0, 1h = unlimited, deterministic cuts after K candidates); oracle: site(first falsified case) = site(every accepted "
                "candidate) = site(final replay); every accepted candidate strictly shortlex-smaller than the current best, pruned recording <= "
                "candidate, reported bitstream = last pruned recording <= original; unlimited runs end by themselves; non-trivial+distinct = "
                "distinct (program, cut) pairs with >= 1 accepted shrink step",
        "assumptions": COMMON_ASSUME + ["'recording buffer stream' identifies an accepted candidate (accept() runs a candidate a second time on a recording stream only when it reproduced)"],
        "level_text": "Runtime monitor of every minimisation step of real Check runs: the hook exposes each candidate and each accepted "
                      "recording, the harness's own shortlex comparator and failure-site record decide monotonicity and site preservation. "
                      "Termination is observed (runs with a 1h limit end by themselves), not proved.",
        "technique": "runtime monitoring of the shrinker through stream snapshots at property entry/exit; site/chain oracle; bounded-progress check for termination",
    },
    "C04": {
        "level": "exploration",
        "evaluations": ["recordings", "example_pairs", "check_pairs", "history_pairs"],
        "required": ["recordings", "example_pairs", "check_pairs", "history_pairs", "long_repeat_programs", "prune_replays_with_removed_bits", "recordings_with_rejected_attempts", "digest_keys_seen_in_2_processes", "abuse_histories", "abuse_draws_that_gave_up", "fuzz_histories"],
        "show": ["recordings", "prune_replays_judged", "prune_replays_with_removed_bits", "example_pairs", "check_pairs", "digest_keys_seen_in_2_processes"],
        "rule": "rejection-heavy random programs x 20 seeds each: record (recording PRNG stream) -> same seed again -> replay as recorded -> "
                "prune (real prune() vs reference prune) -> replay pruned, comparing draws and verdict; Example(seed) pairs; whole Checks with a "
                "fixed -rapid.seed run twice in one process with unrelated checks / cache use in between; a sample of all seeds is evaluated by two "
                "different shard processes with different histories and compared by digest; recordings with -rapid.steps 30/300/2000; a 'history' family runs "
                "StringMatching(p).Example(seed) in a fresh child process and in a child that used related patterns before; non-trivial+distinct = distinct (program, seed) "
                "recordings of complete runs from which prune() removed bits, plus distinct example values and check pairs",
        "assumptions": COMMON_ASSUME + ["replay with rejected attempts removed is judged for complete (passing/failing) runs only; for runs rejected as invalid only the as-recorded replay is judged"],
        "level_text": "Runtime differential monitor: the same bits are pushed through the real streams twice (PRNG twice, recording vs buffer "
                      "replay, recording vs pruned replay, two processes) and all draws/verdicts compared; held on the recordings produced.",
        "technique": "record/replay differential monitor via stream hooks (VerifRecord/VerifReplay/VerifPrune), reference prune, cross-process digests",
    },
    "C07": {
        "level": "exploration",
        "evaluations": ["runs_A", "runs_B"],
        "required": ["failures", "runs_B", "same_seed_pairs", "runs_with_failfile_message", "first_failure_index_bucket:10", "first_failure_index_bucket:30", "digest_keys_seen_in_2_processes"],
        "show": ["failures", "runs_B", "same_seed_pairs", "time_cut_not_compared", "digest_keys_seen_in_2_processes"],
        "rule": "random programs whose falsifier has probability 1/k (k=1..60) so that the first falsified case occurs at index 0..100+; run A with "
                "a random or given base seed, parse -rapid.seed=N from the TB error, run B with that seed: first case must draw A's failing values, "
                "fail after 0 tests with the same minimised result; same-seed pairs in one process and across two shard processes must have identical "
                "digests (all invocations, messages modulo durations/harness frames/pointer addresses); non-trivial+distinct = distinct programs with a reported failure",
        "assumptions": COMMON_ASSUME + ["runs whose minimisation was still going close to the 3s shrink limit are not compared (clock-dependent cut is legal)"],
        "level_text": "Runtime monitor over two-run histories of the real Check (original run, re-run with the printed seed), in-process and across processes.",
        "technique": "two-run history monitor: parse printed seed from TB output, re-run, compare invocation logs; cross-process digests",
    },
    "C09": {
        "level": "exploration",
        "evaluations": ["checks_run"],
        "required": ["verdict_pass", "verdict_only_generated", "family:failfiles", "family:failing", "family:realT", "family:flaky-failfile", "deadline_all_skipped", "realT_count_runs", "planted_fail_files_that_are_symlinks", "deadline_short_failfile_replayed"],
        "show": ["checks_run", "verdict_pass", "verdict_only_generated", "invocations"],
        "rule": "never-failing properties with skip pattern sigma in {never, always, every j-th, data-dependent 5-95%, 9 of 10} x -rapid.checks N in "
                "{1,2,3,5,17,100,1000}: count completed/skipped invocations by stream kind against TB verdict (exactly N completed then stop, or "
                "exactly 10N skipped and an 'only generated' failure with FailNow); planted passing/invalid fail files must be replayed first, exactly once each; "
                "failing programs: no fresh random case after the falsified one, one recording run with the same draws, FailNow last; real *testing.T "
                "sub-tests: statement after a failed Check must not run; a fail file whose replay falsifies once (state dependent) must fail the test "
                "without fresh random cases; a child process with a real test deadline (-test.timeout) in which every case is skipped must not pass; non-trivial+distinct = distinct (N, sigma, #fail files, verdict) cells and failing programs",
        "assumptions": COMMON_ASSUME,
        "level_text": "Runtime counting monitor over the real Check loop: every property invocation is counted by stream kind and matched with the TB verdict.",
        "technique": "invocation-counting monitor (conservation: N completed or 10N skipped) over recording fake TB and real *testing.T sub-tests",
    },
    "C11": {
        "level": "exploration",
        "evaluations": ["checks_run"],
        "required": ["runs_with_failure", "family:forced", "family:random", "verbose_runs", "family:deep-abandon", "deep_abandoned_cases", "family:shared-skip-site", "family:machine-cases"],
        "show": ["checks_run", "runs_with_failure", "cases", "verbose_runs"],
        "rule": "per-case behaviour is a function of the case's first draw: all 4^3 orders of {Errorf, Skip, cleanup-time Errorf, pass} and all ordered "
                "pairs of 14 behaviours (incl. Skip from a cleanup, cleanups registering cleanups) are forced onto consecutive cases (dry run with the same seed yields each case's first draw), plus random "
                "sequences; oracle: findBug stops at the first case that signalled, the reproduction run has that case's draws, no 'flaky', no cleanup "
                "runs after a later case began, every case starts with a live context and clear failure flag, verbose draw labels restart at #0 per case; "
                "non-trivial+distinct = distinct behaviour sequences (up to the falsified case) observed",
        "assumptions": COMMON_ASSUME,
        "level_text": "Runtime monitor of case-to-case isolation on the T that findBug reuses; forced orders are inconclusive (never held) when steering fails.",
        "technique": "history monitor over per-case behaviours steered by a same-seed dry run; attribution oracle (falsified case = reproduced case)",
        "max_inconclusive": 0.05,
    },
    "C08": {
        "level": "exploration",
        "evaluations": ["traces_checked"],
        "required": ["traces_checked", "actions_completed", "stuck_machines", "fuzz_cases", "phase:buffer", "phase:generate", "stat_cases:steps=5", "stat_cases:steps=30"],
        "show": ["traces_checked", "events", "actions_completed", "action_attempts", "stuck_machines", "stat_mean_completed_x100:steps=5", "stat_mean_completed_x100:steps=30"],
        "rule": "random machines (1-6 actions that draw, skip before/after drawing, fail fatally or non-fatally, +/- invariant, struct machines via "
                "StateMachineActions) run by Check (all stream kinds incl. minimisation candidates) and MakeFuzz; each invocation's event trace is fed "
                "to the discipline automaton; stuck machines must end in the 'no valid action' failure; step statistics over >=3000 cases per setting; "
                "non-trivial+distinct = distinct trace shapes (sequence of event classes, first 40 events) accepted by the automaton",
        "assumptions": COMMON_ASSUME + ["machines whose actions all skip after drawing are only required to terminate"],
        "level_text": "Online trace-specification monitor (finite automaton over check/action begin/end events recorded at the callback boundary) "
                      "over thousands of machines and ~10^6 events, plus a >8 sigma statistical band for 'skips are not steps'.",
        "technique": "trace automaton over callback events; bounded-progress check for stuck machines; statistical band on completed steps",
        "post": post_c08,
    },
    "C10": {
        "level": "exploration",
        "evaluations": ["brackets"],
        "required": ["brackets", "cleanups_run", "contexts", "checks_run", "example_calls", "fuzz_cases",
                     "brackets:prop:check:generate", "brackets:prop:check:reproduce", "brackets:prop:check:accepted", "brackets:prop:check:buffer",
                     "brackets:custom:check:", "brackets:custom:example:", "brackets:prop:fuzz:buffer", "goexit_runs", "fail_file_replay_runs"],
        "show": ["brackets", "events", "cleanups_registered", "cleanups_run", "contexts"],
        "rule": "properties with 0-6 body cleanups (none / panic / register more / Errorf / Fatalf / Context()), Custom generator functions with their own "
                "cleanups and contexts under Filter/distinct (retried), Repeat actions registering cleanups, endings {return, Fatalf, panic, Skip, Errorf}; "
                "every call of a property or Custom function is a bracket whose events (begin, ctx samples, reg, bodyend, run) are checked in one global "
                "sequence against a reference LIFO stack, cancellation-before-cleanup, exactly-once and completion-before-next-begin; brackets are counted "
                "per phase (generate/reproduce/accepted/rejected candidates, fail-file replay, capture, final replay, Example, MakeFuzz); "
                "non-trivial+distinct = distinct bracket event shapes",
        "assumptions": COMMON_ASSUME,
        "level_text": "Runtime bracket monitor over every invocation rapid makes (hundreds of thousands of brackets incl. minimisation and retried Custom calls).",
        "technique": "event-trace monitor with reference LIFO stack model and context liveness sampling at the callback boundary",
    },
    "C02": {
        "level": "exploration",
        "evaluations": ["checks_run"],
        "required": ["cells_fired", "skip_only_runs", "ctx:body", "ctx:action", "ctx:invariant", "ctx:custom-inner", "ctx:custom-outer", "ctx:cleanup-body",
                     "ctx:cleanup-action", "ctx:cleanup-custom", "ctx:goroutine", "pos:first", "pos:middle", "pos:last", "pos:after-skips", "pos:late-step", "nth_execution_runs"],
        "show": ["checks_run", "cells_fired", "skip_only_runs"],
        "rule": "enumeration of the matrix: 15 failure kinds (panic string/error/struct/nil, 3 runtime errors, Fatal, Fatalf, FailNow, Error, Errorf, Fail, "
                "Error()/Errorf(\"\") with empty message) x 9 callback contexts x position of the falsifying case (first, middle, the checks-th, after 9 "
                "skipped cases, late state-machine step; steered by a same-seed dry run) x variant (plain, then Skip, then a draw rejected as invalid data, "
                "Skip in a cleanup that runs after the signalling cleanup, Skip from a deferred function of the signalling callback, "
                "Skip inside a cleanup); oracle: an invocation recorded a failure intent => TB failed, never 'flaky'; skip-only programs never fail; "
                "a cell whose falsifier never fired is inconclusive; non-trivial+distinct = distinct matrix cells in which the falsifier fired",
        "assumptions": COMMON_ASSUME,
        "level_text": "Matrix enumeration monitored at run time: every cell is executed through the real Check with the falsifying case steered to a "
                      "chosen position; the intent log (written before each signal) against TB.Failed() decides.",
        "technique": "enumerated failure-kind x context x position matrix with intent-before-signal logging; oracle intent => TB failed",
        "max_inconclusive": 0.05,
    },
    "C06": {
        "level": "exploration",
        "evaluations": ["histories"],
        "required": ["histories", "run2:auto", "run2:flag", "comment_lines", "two_check_histories", "upgrade_histories_replayed", "histories_with_symlinked_fail_file"],
        "show": ["histories", "run2:auto", "run2:flag", "comment_lines", "max:fail_file_bytes"],
        "rule": "two/three-run histories in a scratch working directory: run 1 fails with fail files on (24 hostile test names: unicode, path "
                "separators, '..', glob metacharacters, invalid UTF-8, NUL, Windows reserved names, up to 180 bytes; 11 output classes: none, text, "
                "binary, NUL, CR/LF mixes, '#'-lines imitating fail-file syntax, empty lines, single lines of 65532/65536/1Mi bytes, a 6000-element "
                "slice draw line; bitstreams from empty to thousands of words); oracle: exactly one file under the documented name (harness's own "
                "sanitiser), no temp left, file words = reported bitstream; run 2 (no flag) and run 3 (other cwd, -rapid.failfile, original or moved "
                "file) must replay it first, draw the same values and fail 'after 0 tests' with the same message; "
                "non-trivial+distinct = distinct (sanitised name, output class, threshold) histories whose run 1 failed",
        "assumptions": COMMON_ASSUME,
        "level_text": "Runtime monitor over fail -> rerun histories through the real Check and the real file system.",
        "technique": "two-run history monitor over files on disk + invocation logs; independent parser and name sanitiser as reference",
        "max_inconclusive": 0.1,
    },
    "C17": {
        "level": "exploration",
        "evaluations": ["directories"],
        "required": ["directories", "files_planted", "ignore_log_lines", "other_version_still_failing", "explicit_history_runs", "explicit_unusable_plus_valid", "kind:truncated", "kind:bitflip", "kind:now-passes", "kind:overrun", "kind:directory", "kind:other-version"],
        "show": ["directories", "files_planted", "ignore_log_lines", "mutated_file_still_usable"],
        "rule": "1-6 unusable files of 20 kinds (empty, random bytes, directory, dangling symlink, other version, missing/extra '#', bad/huge seed, "
                "bad/huge/negative/one-character word, truncations and bit flips of a genuine file, genuine file whose case now passes / overruns / is "
                "skipped, comments only, whitespace) planted in the test's fail-file directory; oracle against the same Check with the same seed in an "
                "empty directory: identical random invocations, verdict, message, seed; no crash; one ignore/no-longer log line per file; a mutated "
                "file that still parses and still falsifies is a usable fail file and is then judged by the C01 oracle; further families: unusable explicit "
                "-rapid.failfile next to a usable file, explicit file replaced by garbage between two Checks of one process, other-version files "
                "(several version spellings) whose case would still fail; "
                "non-trivial+distinct = distinct (planted kinds, property fails?) directories",
        "assumptions": COMMON_ASSUME,
        "level_text": "Runtime differential monitor (directory with unusable files vs empty directory) through the real Check.",
        "technique": "differential two-run monitor (planted corpus vs empty directory), file-corpus mutation, log-line conservation",
        "max_inconclusive": 0.1,
    },
    "C16": {
        "level": "fault_enumeration",
        "evaluations": ["crash_runs", "fault_runs", "fault_crash_runs"],
        "required": ["scenarios_traced", "crash_runs", "killed_at:write", "killed_at:openat", "killed_at:renameat", "killed_at:mkdirat", "killed_at:close",
                     "later_run_replayed", "later_run_found_nothing", "second_saves_after_kill",
                     "fault_runs", "fault_crash_runs", "fault_injected:renameat=EXDEV", "fault_killed_at:unlinkat", "explicit_crash_runs", "explicit_file_untouched", "existing_file_untouched"],
        "show": ["scenarios_traced", "save_syscalls", "crash_runs", "later_run_replayed", "later_run_found_nothing", "crash_point_not_reached", "fault_runs", "fault_crash_runs"],
        "rule": "a child process (main goroutine locked to the main thread) runs a real failing Check with fail files on in an empty directory under "
                "strace; the reference trace lists every file-system-affecting system call of the main thread between two marker calls (mkdirat, openat, "
                "each write, close, renameat, unlinkat); for EVERY such (syscall, j-th occurrence) the child is re-run with strace -e inject=<sc>:signal=KILL:"
                "when=<j>, i.e. killed on entry to that call; oracle: every file matching the discovery pattern parses and equals the uninterrupted save "
                "modulo timestamps, a later in-process Check replays it or finds nothing and never logs 'ignoring fail file'; trace oracle: the final "
                "name is never opened for writing, only reached by rename of a closed temp file; scenarios: 0/1/3/40 output lines (one write each), "
                "0..3000+ words, names needing sanitisation; non-trivial+distinct = distinct (scenario, syscall, occurrence) crash points at which the kill landed",
        "assumptions": COMMON_ASSUME + ["process death only (SIGKILL on syscall entry): the page cache survives; power loss is not covered",
                                        "strace 6.1 fault injection counts calls per thread; the evidence records the call at which each kill landed"],
        "level_text": "Exhaustive enumeration of crash points at system-call granularity for each scenario (strictly finer than failpoints), with a "
                      "directory-state and trace oracle; the set of scenarios is sampled.",
        "technique": "strace fault injection (SIGKILL on entry to the j-th syscall, and errno injection followed by SIGKILL on the error path) enumerating every crash point of a save; directory + syscall-trace oracle",
        "shards": 8,
        "max_inconclusive": 0.05,
    },
    "C13": {
        "level": "exploration",
        "evaluations": ["fuzz_cases", "repeat_runs", "tail_runs"],
        "required": ["fuzz_cases", "status:pass", "status:skip", "status:fail", "overruns", "tail_runs", "repeat_runs", "text_inputs",
                     "len_mod8:0", "len_mod8:1", "len_mod8:2", "len_mod8:3", "len_mod8:4", "len_mod8:5", "len_mod8:6", "len_mod8:7"],
        "show": ["fuzz_cases", "status:pass", "status:skip", "status:fail", "overruns", "tail_runs", "repeat_runs"],
        "rule": "random programs (and Bool-only programs) run through MakeFuzz in real *testing.T sub-tests on byte strings that are hostile word "
                "patterns, PRNG recordings of the same program, recordings with hostile replacements, truncations at every residue mod 8, recordings plus "
                "extra bytes, and random bytes; oracle: bitstream handed to the property = little-endian words of the input with a zero-padded tail "
                "(harness's own conversion), status follows from the property's own log (fail iff a failure was signalled, skip iff it skipped or a draw "
                "did not return), draws/outcome equal VerifReplay of those words, Bool = lowest bit of its word, same input twice gives the same, appending "
                "unconsumed bytes changes nothing; non-trivial+distinct = distinct (program, draw sequence) of cases that were not skipped",
        "assumptions": COMMON_ASSUME,
        "level_text": "Runtime differential monitor of the fuzz entry point against an independent byte->word conversion and the replay path.",
        "technique": "differential monitor: MakeFuzz sub-tests vs independent LE conversion + buffer replay; metamorphic checks (repeat, append tail)",
    },
    "C12": {
        "level": "exploration",
        "evaluations": ["checks_run"],
        "required": ["minimised", "family:threshold", "family:collection", "short_mode_runs", "slow_search_runs", "failure_mode:1", "failure_mode:2"],
        "show": ["checks_run", "minimised", "never_found"],
        "rule": "threshold properties over all 11 full-range integer kinds: thresholds +-2^j, +-(2^j+-1) for every j, type extremes and neighbours, random "
                "magnitudes, both directions (quick: every third threshold, one seed; thorough: all x 25 seeds), and 'at least k elements' for "
                "SliceOf(Int()), SliceOf(Uint8()), String(), MapOf(Int(),String()), k in 0..32; -rapid.checks=200000 so that thresholds reachable only "
                "through the top bit band are found; oracle: the value drawn in the final replay equals the boundary (closest-to-zero failing value; "
                "exactly k elements, all zero for integer slices); never found / still minimising after 15s = inconclusive; "
                "non-trivial+distinct = distinct threshold properties that were falsified and minimised",
        "assumptions": COMMON_ASSUME + ["bounded ranges are deliberately not claimed by the property"],
        "level_text": "Runtime monitor of the end result of real Check runs on enumerated threshold properties.",
        "technique": "enumerated threshold properties run through the real Check; exactness oracle on the final replay's draw",
        "max_inconclusive": 0.01,
    },
    "C18": {
        "level": "exploration",
        "evaluations": ["ranges8", "band_ranges", "float_band_runs", "float_ulp_ranges", "edge_ranges", "fresh_pairs", "concurrent_fresh_rounds"],
        "required": ["ranges8", "band_ranges", "float_band_runs", "float_ulp_ranges", "stored_makecheck_triples", "kind_forms", "fresh_pairs_with_stale_fail_file", "edge_ranges", "fresh_pairs", "concurrent_fresh_rounds", "bands_required", "edges_required",
                     "fresh_sequences_compared_across_processes", "fresh_pairs_after_math_rand_seed"],
        "show": ["ranges8", "band_ranges", "bands_required", "float_ulp_ranges", "max:draws_to_cover_float_ulp_range", "edge_ranges", "draws", "max:draws_to_cover_8bit_range", "max:draws_to_hit_all_bands",
                 "max:draws_to_hit_edges", "concurrent_checks", "fresh_sequences_compared_across_processes"],
        "rule": "(a) 8-bit ranges [a,b] of Uint8Range/Int8Range (ByteRange sampled): draw until every value was seen, cap 2*10^5 (quick: every 16th range, "
                "thorough: all 65,792); (b) 64-bit ranges placed at type extremes / crossing zero / random: offset from the bound nearer to zero split into "
                "bit-length bands, every required band must be hit within 3*10^5 draws; full-range floats: every (sign, exponent sign, exponent magnitude "
                "band) hit; (a') every value of float ranges 1-20 ulp wide; (c) min, max and zero-if-in-range of random integer and float ranges (incl. +-Inf, adjacent floats, extremes) within 5000 draws; "
                "(d) freshness: pairs of Checks without -rapid.seed differ, cases within a run differ, 16 goroutines x 3000 concurrent Checks all differ, one stored MakeCheck function run three times differs, "
                "sequences differ across all shard processes; non-trivial+distinct = distinct ranges / runs explored",
        "assumptions": COMMON_ASSUME + ["value-level reachability is exhaustive only for 8-bit ranges; for wider kinds it is decided per bit-length band "
                                        "(probability floor 1e-4 per draw: false-alarm probability < 1e-12 per band)"],
        "level_text": "Runtime statistical monitor: coverage of values/bands/edges observed over millions of draws through the real generators; exhaustive "
                      "over all 8-bit ranges in the thorough tier.",
        "technique": "coverage monitor over generated values (exhaustive value sets for 8-bit ranges, bit-length bands, edge hits) + seed freshness across calls, goroutines, processes",
        "post": post_c18,
        "exhaustive_key": "",
    },
    "C14": {
        "level": "exploration",
        "race": True,
        "evaluations": ["cases"],
        "required": ["cases", "ops", "cleanups", "cases_with_context", "late_cleanup_cases", "porcupine:Ok", "canary_race_reports", "verbose_checks", "checks_run", "rapid_log_scenarios", "scenarios_with_a_user_lock"],
        "show": ["cases", "ops", "cleanups", "late_cleanup_cases", "porcupine:Ok", "porcupine:Illegal", "porcupine:Unknown", "race_reports_distinct", "canary_race_reports"],
        "rule": "binary built with -race; each case starts G in {2,4,8,16,32} goroutines behind a barrier, each running a random script over {Helper, Name, Log, "
                "Logf, Error, Errorf, Fail, Failed, Context, Cleanup} on the case's T (variants: all scripts start with Context(); goroutines polling Context() across the end of the property "
                "(never a live context after a cancelled one); goroutines registering cleanups and reading Failed() while a short state machine steps and "
                "the property returns (in-process hang watchdog); goroutines that outlive the "
                "body, wake on context cancellation and register cleanups while rapid runs the cleanups; verbose logging on/off; cases driven by Check and by "
                "VerifRecord for a per-case outcome); monitors: race detector reports = 0, porcupine linearizability of every per-T history against the "
                "sequential model {failed, ctx}, outcome failed iff a failing call was made, cleanups registered = ran exactly once, one context per case, "
                "live during and cancelled after; a canary child with a deliberate race proves the detector is live; "
                "non-trivial+distinct = distinct global call orders (sequence of (goroutine, op) by call tick) observed",
        "assumptions": COMMON_ASSUME + ["absence of races is established only for the interleavings the scheduler produced",
                                        "trusted: Go race detector, porcupine v1.3.0"],
        "level_text": "Race detector + linearizability checking of recorded histories + end-state conservation checks over thousands of concurrent cases.",
        "technique": "Go race detector on barrier-released goroutine scripts; porcupine linearizability check of client-boundary histories; conservation monitors (cleanups, context identity)",
        "max_counters": [],
    },
    "C15": {
        "level": "exploration",
        "race": True,
        "evaluations": ["rounds"],
        "required": ["rounds", "concurrent_checks", "draws_compared", "canary_race_reports", "ctor:Deferred", "ctor:Custom", "ctor:StringMatching", "ctor:Filter", "fuzz_target_rounds", "failing_together_rounds", "descriptions_compared"],
        "show": ["rounds", "concurrent_checks", "draws_compared", "race_reports_distinct", "canary_race_reports"],
        "rule": "binary built with -race; every round builds a FRESH random generator tree (biased to lazily initialised nodes: Deferred, recursive trees, "
                "Custom, Filter, Make, regexp generators with a per-round unique pattern) and releases 8-16 concurrent Checks (own TB each, same -rapid.seed) "
                "from a barrier; a third of them call String() first, a third use the tree as a sub-generator first; monitors: race detector reports = 0, "
                "every concurrent check's draws = the same check run alone on the used tree and on a freshly built equal tree, contract of every value, "
                "Deferred constructor ran once; non-trivial+distinct = distinct shared generator expressions exercised",
        "assumptions": COMMON_ASSUME + ["absence of races is established only for the interleavings the scheduler produced (first-use windows are hit by releasing all checks at once on a fresh tree)"],
        "level_text": "Race detector + differential (concurrent vs solo) monitor over hundreds of fresh shared generator trees.",
        "technique": "Go race detector over barrier-released concurrent Checks on fresh shared generators; differential draw-log monitor against solo runs",
    },
}

# families added after the fourth wave of seeded changes (DESIGN.md 10.9); appended to the rule texts above
_MORE = {
    "C02": "Since the fourth wave the cleanup variants cover every failure kind (raw panics and runtime errors too): a cleanup that skips "
           "after / before the falsifying cleanup, a skip in a cleanup of the Custom function that panicked, and the callback that registered "
           "the falsifying cleanup ending by Skip itself (body-skip).",
    "C03": "A family 'unsat' drives generators whose contract no bitstream can meet (empty regexp classes, a\\bb, 3 distinct bools, "
           "Filter(false), Custom that always skips): every draw must end as invalid data. Recursive trees whose children are distinct by key "
           "re-enter ONE SliceOfNDistinct object; RuneFrom is also given user tables that differ only in Stride.",
    "C05": "One program in six has a state machine in which EVERY action has a failure site of its own reached through Fatal/Fatalf/FailNow "
           "with different densities.",
    "C07": "Half of the re-runs of the printed seed add -rapid.v.",
    "C08": "Invariants may fail (data dependent) on the initial state, and may skip (which makes the whole test case invalid: no event may follow).",
    "C09": "Skip patterns include a Skip from the invariant of a state machine after some action has drawn a value.",
    "C10": "A third of the Checks run on a TB that offers a Context of its own (as *testing.T since Go 1.24).",
    "C11": "Behaviours include failures without a message followed by a skip or raised by a cleanup, and a non-fatal failure in a case "
           "whose body and cleanup both skip / whose cleanups fail and skip in either order.",
    "C12": "Three quarters of the threshold properties draw other values before and/or after the deciding integer (Bool, short string; byte slice, Int16).",
    "C14": "Workers of the late-cleanup family occasionally signal their failure only after the context was cancelled (while cleanup "
           "functions run); a quarter of the scenarios run the whole script on the T of a Custom generator function; a third of the Checks "
           "use a TB with a Context of its own. Race reports are attributed by access side: a report both of whose accesses lie in harness "
           "callbacks is a monitor bug (exit 2), never a verdict.",
    "C15": "In a seventh of the rounds a neighbouring check whose OWN Custom generator function signals non-fatal failures runs (and fails) "
           "alongside the others, which must not notice.",
    "C17": "Two shards start a child process with a real test deadline (-test.timeout=15s): with a stale fail file whose replay takes 3.5 s "
           "the same 100 random test cases must run as without it. A truncated file given with -rapid.failfile that still parses and still "
           "fails is a usable fail file and is judged as one.",
    "C18": "Within every fresh run no two test cases may be identical (fingerprint: a permutation of 24 elements).",
}
_MORE5 = {
    "C01": "Failure kinds include rapid's own panic on a misused Custom generator (its function draws nothing).",
    "C02": "The matrix includes the failure kind lib-assert (rapid's own panic on a Custom function that draws nothing).",
    "C03": "FilterSiblings: a chain of 1-7 filters on one base refined by two siblings with predicates of their own.",
    "C04": "Family big-data: one Check of 40 test cases x 30000 integers; test case #k must draw what its own seed draws alone.",
    "C08": "-rapid.steps=0 is among the settings (the invariant still runs once); one machine in four names an action 'Check'; every supplied action must be reached in the generate phase.",
    "C09": "A second kind of child process: test deadline 25 s away (nearer than the 30 s minimisation limit), fast never-failing property: exactly N cases.",
    "C10": "Cleanup kinds include t.Cleanup(nil) and a cleanup function that draws from a Custom generator (a call made by a cleanup function is an invocation of its own).",
    "C11": "Behaviours include a nil cleanup registered between two real ones.",
    "C14": "Family late-first-context: goroutines whose first Context() call comes as the case ends (by return or SkipNow); overlapping workers may keep calling Errorf while the property returns (verdict and races judged, not 'flaky').",
}
_MORE6 = {
    "C01": "A quarter of the programs return at once if t.Failed() is already true (it never is on a T nothing was signalled on).",
    "C02": "Contexts cleanup-nested / cleanup-nested-custom: the falsifying cleanup is registered BY a cleanup function.",
    "C04": "The big-data cases end with collections of variable size (their lengths must not depend on the data drawn by earlier cases).",
    "C06": "Histories with a dozen stale fail files of another version already present, and with TMPDIR on another file system; family save-fails (a file sits where the directory is needed).",
    "C08": "One machine in five is run by a property that calls Repeat twice (a subset of the actions, then all of them).",
    "C09": "A third kind of child process: the third test case takes 4 s and falsifies the property with the test deadline 6 s away.",
    "C14": "In some overlap scenarios the property's own goroutine ends with Fatalf while the workers keep signalling.",
    "C17": "Hand-edited fail files (comment lines stripped, blank first line) that now pass or overrun; a child process with 128 file descriptors, no GC and 400 empty fail files in front of a usable one.",
}
_MORE7 = {
    "C03": "Make is also asked for types with defined element/key types ([]Octet, map[Label][]Word, a packet struct); StringOfN is also driven by element generators that yield non-runes (negative values, surrogates, values beyond MaxRune).",
    "C05": "A quarter of the programs reach their failure sites through 1-4 extra recursive calls, depending on the data (another depth is another call stack, hence another site).",
    "C06": "A fifth of the histories fail with a message of several lines, some of which look like fail-file data.",
    "C07": "One state machine in four has two actions whose names differ only in case.",
    "C09": "A quarter of the skip-pattern runs are made under -short (a fifth of the checks and of the budget of skipped cases).",
    "C16": "A few scenarios let a flaky property fail twice in one process, so that the second save goes to the name of the first; these are judged on the system-call trace.",
    "C17": "Family usable-among-others: one usable, still failing file with an other-version copy of the same words before it, a now-passing or garbage file after it, or with unused trailing words; the report must be that file's test case (C01 oracle).",
}
_MORE8 = {
    "C04": "A quarter of the check pairs are followed by three Checks with the same seed over ONE generator whose Filter holds for 1 value in 24.",
    "C06": "A third of the explicit -rapid.failfile paths contain characters that mean something to a glob.",
    "C09": "A fifth of the skip-pattern runs use a TB whose Context() is cancelled already.",
    "C10": "Family nested: a Check inside a property with the enclosing *rapid.T as its TB.",
    "C11": "Family tb-failed-by-others: something else fails the enclosing TB while Check runs; no test case may be blamed.",
    "C12": "400 more Checks of Uint/Uint64 thresholds above 2^63, one seed each (about one seed in a hundred finds its first counterexample as a genuine 64-bit value).",
    "C14": "A goroutine that the watchdog's dump shows waiting for a lock inside rapid.(*T) for five minutes or more is reported as a deadlock (VIOLATION) even if the scenario finishes when run alone.",
    "C15": "In two rounds out of seven every test case constructs StringMatching/SliceOfBytesMatching generators for one expression text itself.",
}
_MORE9 = {
    "C03": "Half of the Permutation leaves are drawn from directly (typed, inside a Custom function) so that rapid computes the generator's label itself; StringOfN over non-rune Int32 generators also has byte limits, and every rune of the result must be one the element generator can produce; RuneFrom lists with unencodable runes must stay unmodified.",
    "C04": "Every rejection-heavy regexp (empty-width assertions), as StringMatching and as SliceOfBytesMatching, is recorded, pruned and replayed on its own over 60 seeds (not only when a random program happens to contain one).",
    "C08": "The StateMachineActions type carries helper methods (niladic, with results, variadic, two parameters, promoted from an embedded struct): none of them is an action. A fifth step statistic under -short (-rapid.steps=40: mean 20 in every Repeat call, however many came before).",
    "C09": "The fail-file family also runs with -rapid.checks=0 and with -short leaving no random test case (the files are replayed all the same); two skip patterns skip before the first draw.",
    "C10": "A Repeat action registers a cleanup and then skips.",
    "C13": "One tail run in sixteen appends more than 64 KiB of unconsumed bytes.",
    "C14": "Half of the Errorf calls of the workers pass a slice that the worker overwrites as soon as Errorf has returned; the message must show the value at the call.",
    "C17": "Every other of the 400 unusable entries of the many-empty-files child is a directory with the name of a fail file.",
}
_MORE10 = {
    "C02": "Family nth-execution: a property that is falsified (every failure kind) only in its n-th execution, whatever it is given: that execution falsified it, the test must fail (rapid may call it flaky). Variant then-more-draws: after a non-fatal failure the callback goes on drawing, also values of other Custom generators, through the T it signalled on and through the enclosing T.",
    "C03": "Family long: typed generators of long values (67 to 5000 bytes / elements: byte slices, regexp byte slices and strings, strings, integer slices, maps) drawn with the draw log on and off (MakeFuzz, Check with and without -rapid.v, the final replay of a failing Check); every value is checked when returned and again when the test case ends.",
    "C04": "Family fuzz-history: one MakeFuzz target is fed 40 inputs in a row (recordings cut short, extended, with hostile words); each input must end and draw as on a fresh target. Family abuse-history: ONE generator instance (6-16 nested combinators of every kind over an often-rejecting leaf) records 24 seeds, then 2500 other seeds (a third of the draws give up and unwind through all frames) and 200 truncated replays, then the 24 seeds again: same values, same bits, same replays.",
    "C06": "A tenth of the histories reach the fail file through a symbolic link (the file is moved into a store before the next run); a fifth are 'upgrade' histories: after the replays the saved file is turned into another version's, the test fails again with the flags of run 1 - that failure must be persisted afresh (exactly one file of the current version, named in the message, holding the minimised case) and replayed first by the run after it.",
    "C09": "A third of the planted fail files are symbolic links into a store; the fail-file family also plants 24, 45, 70 and 130 files (every one is replayed). A child process with a real *testing.T and go test -timeout 8s must still replay a fail file that falsifies the property first.",
    "C14": "In a fifth of the scenarios the workers use a lock of the user's own: held around the non-logging methods of T, and taken by the String method of a value passed to Log/Logf/Errorf (lock order: user lock, then T's; a library that formats arguments while holding T's lock deadlocks, which the hang watchdog reports).",
    "C12": "Two more ways of failing: a panic with a freshly allocated wrapped error and with a pointer to a struct holding further pointers (same text in every execution, other addresses).",
    "C15": "Family fuzz-target: ONE function returned by MakeFuzz is called from 6-15 parallel sub-tests at once, each with its own input (a recording made alone on an equal tree); status and draws of every call are those of a replay of its input. In a third of the rounds every test case of every check BUILDS a generator on the shared one (Map, Filter, OneOf, SliceOfN, Custom) and draws from it. After every round the description (String) of the shared generator and of every generator the checks built on it must equal that of a freshly built equal tree. Family failing-together: 3-7 FAILING checks (a threshold each) at once over one shared generator on same-named test objects; each executes exactly the test cases (search, reproduction, every minimisation attempt, final replay) it executes alone.",
    "C18": "Freshness also after the test binary has seeded the global math/rand source itself (rand.Seed(42) before each of two Checks).",
    "C17": "The descriptor-limited child plants 800 unusable entries (empty files, directories, binary files starting with control bytes, text) in front of the usable one and its property opens files of its own. In the explicit families a problem with a fail file must never be an ERROR of the test.",
    "C11": "Family machine-cases: a never-failing bounded-buffer machine (put / get / clear skip before drawing when not applicable, peek gives up after drawing in half of its attempts) run for 300 cases on the T that Check reuses must pass. Family shared-skip-site: non-fatal failure when a > ta, then ONE Skip statement reached when b > tb by failing and non-failing cases alike; the test case presented after minimisation must be one that signalled (C01 oracle). Family deep-abandon: a 600-case Check in which every second test case is abandoned 8-16 generator levels deep; the property never signals a failure and must pass.",
    "C13": "One input in seven is TEXT (the text of a well-formed fail file of this version holding a recording of the same property, a go fuzz corpus header, hex lines, JSON): bytes like any others.",
    "C16": "Family fault: one file-system call of the save (mkdirat, openat, write, close, renameat, unlinkat; first and last call of every name in the quick tier, every call in the thorough tier) is made to FAIL (ENOSPC, EIO, EDQUOT, EACCES, EMFILE, EXDEV, EBUSY, EROFS by strace error injection); the faulted run is judged by the same trace and directory oracles, and the process is then killed at every later file-system call (of another name - strace keeps one injection per call name) of the error path the library takes. A third of the crash scenarios let minimisation run to its end first (the crash window is the whole failing Check, not only the save). Family explicit: the failing run was started with -rapid.failfile naming a file that is missing or a complete fail file that no longer reproduces (inside or outside the test's directory): that path is picked up by the next run with the same command line, so it must never be opened for writing and must hold what it held before, or a complete save, at every crash point. Family existing: an earlier run of the test (logging other text) has left its fail file; the failing run reproduces from it (found by the glob, or named with -rapid.failfile inside or outside the test's directory): that file is never opened for writing and at every crash point holds what it held or a complete file with the same test case.",
}
for _k, _v in _MORE10.items():
    _MORE9[_k] = _MORE9.get(_k, "") + " " + _v
for _k, _v in _MORE9.items():
    _MORE8[_k] = _MORE8.get(_k, "") + " " + _v
for _k, _v in _MORE8.items():
    _MORE7[_k] = _MORE7.get(_k, "") + " " + _v
for _k, _v in _MORE7.items():
    _MORE6[_k] = _MORE6.get(_k, "") + " " + _v
for _k, _v in _MORE6.items():
    _MORE5[_k] = _MORE5.get(_k, "") + " " + _v
for _k, _v in _MORE5.items():
    _MORE[_k] = _MORE.get(_k, "") + " " + _v
for _k, _v in _MORE.items():
    META[_k]["rule"] += " " + _v
