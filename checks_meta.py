# Per-property metadata used by ./check when merging shard results into
# evidence/<id>.json.  "evaluations": counters summed into coverage.evaluations;
# "required": counters that must be > 0 or the run is reported as broken
# (observed nothing); "show": counters echoed on stdout.

COMMON_ASSUME = [
    "Go 1.23.5 runtime; harness module declares go 1.23 (panic(nil) is visible as *runtime.PanicNilError)",
    "generated programs/properties are deterministic functions of their draws (by construction)",
    "verif_hooks.go accessors (build tag verif) only read state or call existing internals",
]

META = {
    "C03": {
        "level": "exploration",
        "evaluations": ["fuzz_cases", "prng_cases", "example_cases"],
        "required": ["fuzz_cases", "prng_cases", "values_checked", "fuzz_passed", "fuzz_skipped"],
        "show": ["values_checked", "fuzz_passed", "fuzz_skipped", "fuzz_failed"],
        "rule": "random generator expressions (depth<=3, every public constructor, extreme parameters) each driven by hostile byte strings "
                "through MakeFuzz and by the PRNG through Check/Example; every returned value is checked against the per-node contract; "
                "non-trivial+distinct = distinct (expression, returned value) pairs whose value was returned and contract-checked",
        "assumptions": COMMON_ASSUME + ["the contract checkers in harness/genx_test.go state the documented contracts"],
        "level_text": "Runtime contract monitor: held on every value returned in the executions produced (hundreds of thousands of "
                      "MakeFuzz cases on hostile word patterns plus PRNG-driven Check/Example runs over thousands of random generator "
                      "expressions with extreme parameters); says nothing about expressions or bitstreams not generated.",
        "technique": "runtime contract monitor over fuzzed bitstreams (MakeFuzz sub-tests + PRNG), per-node oracles, hang watchdog",
    },
}
