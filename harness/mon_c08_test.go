package harness

// C08 — state-machine runs follow the check/action discipline.
// Events: the per-invocation trace written by harness actions and invariants.
// Oracle: an online trace automaton (see judgeTrace) plus step statistics and
// stuck-machine termination.

import (
	"flag"
	"fmt"
	"os"
	"strings"
	"testing"

	"pgregory.net/rapid"
)

func init() {
	monitors["C08"] = &monitor{scenarios: c08Scenarios, run: c08Run, finish: c08Finish}
}

func c08Scenarios(cfg runCfg) []Scenario {
	var out []Scenario
	i := 0
	for j := 0; j < cfg.n(2000, 80); j++ {
		if cfg.mine(i) {
			fam := "machine"
			switch mix(cfg.seed, 808, uint64(j)) % 10 {
			case 7:
				fam = "fuzz"
			case 8:
				fam = "stuck"
			case 9:
				fam = "struct"
			}
			out = append(out, Scenario{Family: fam, Seed: mix(cfg.seed, 8, uint64(j))})
		}
		i++
	}
	// step statistics: 4 settings, each spread over all shards
	for _, st := range []int{5, 30} {
		for _, inv := range []int{0, 1} {
			out = append(out, Scenario{Family: "steps", Seed: mix(cfg.seed, 8, 77, uint64(cfg.shard)), N: st, K: inv})
		}
	}
	// -short halves the number of steps - of every Repeat call alike, however many came before it
	out = append(out, Scenario{Family: "steps", Seed: mix(cfg.seed, 8, 78, uint64(cfg.shard)), N: 40, K: 2})
	return out
}

// genMachine builds one Repeat step with 1..6 actions.
func genMachine(r *rng, failDen int) Step {
	st := Step{Op: "repeat", Shared: r.chance(1, 3)}
	na := r.between(1, 6)
	checkNamed := -1
	if r.chance(1, 4) {
		checkNamed = r.intn(na) // in a hand-built map "Check" is an action name like any other (the invariant is "")
	}
	for i := 0; i < na; i++ {
		a := Action{Name: fmt.Sprintf("A%d", i)}
		if i == checkNamed {
			a.Name = "Check"
		}
		switch r.intn(5) {
		case 0:
			a.Steps = append(a.Steps, Step{Op: "skipif", Pred: Pred{Typ: "ctr", K: int64(r.between(2, 30))}})
		case 1:
			a.Steps = append(a.Steps, Step{Op: "skipif", Pred: Pred{Typ: "attempt", M: uint64(r.between(2, 4))}})
		}
		nd := r.between(0, 2)
		for d := 0; d < nd; d++ {
			a.Steps = append(a.Steps, Step{Op: "draw", GX: gxInt(r, gxOpts{small: r.chance(1, 2)}), Label: fmt.Sprintf("a%d_%d", i, d)})
		}
		if nd > 0 && r.chance(1, 3) {
			a.Steps = append(a.Steps, Step{Op: "skipif", Pred: hashPred(r, r.between(2, 5))})
		}
		if failDen > 0 && r.chance(1, 2) {
			k := r.intn(nFailKinds)
			a.Steps = append(a.Steps, Step{Op: "failif", Pred: hashPred(r, failDen), Kind: k, Site: i % len(sites)})
			if kindNonFatal(k) && r.chance(2, 3) {
				// non-fatal failure followed by the same action becoming non-applicable: by Skip, or by a
				// generator rejecting its data (which never passes through (*T).Skip)
				if r.chance(1, 2) {
					a.Steps = append(a.Steps, Step{Op: "skipif", Pred: hashPred(r, 2)})
				} else {
					a.Steps = append(a.Steps, Step{Op: "invalidif", Pred: hashPred(r, 2)})
				}
			}
		}
		if nd > 0 {
			a.Steps = append(a.Steps, Step{Op: "add"})
		}
		st.Acts = append(st.Acts, a)
	}
	if r.chance(3, 4) {
		st.Inv = []Step{}
		if failDen > 0 && r.chance(1, 2) {
			pr := Pred{Typ: "ctr", K: int64(r.between(5, 80))}
			if r.chance(1, 3) {
				// data dependent: may already fail the very first check, before any action has run
				pr = hashPred(r, r.between(2, 12))
			}
			st.Inv = append(st.Inv, Step{Op: "failif", Pred: pr, Kind: r.intn(nFailKinds), Site: 5})
		}
		if r.chance(1, 5) {
			// the invariant itself skips (data dependent): that makes the whole test case invalid, it is not an action that skipped
			st.Inv = append(st.Inv, Step{Op: "skipif", Pred: hashPred(r, r.between(3, 40))})
		}
	}
	return st
}

// judgeTrace runs the discipline automaton over one invocation's trace.
func judgeTrace(inv *Inv, names map[string]bool, hasInv bool) string {
	expectCheck := hasInv
	dead, pendingNF, inAct, inCheck := false, false, false, false
	started, skippedInCheck := false, false
	for i, e := range inv.Trace {
		bad := func(msg string) string {
			lo := i - 6
			if lo < 0 {
				lo = 0
			}
			return fmt.Sprintf("%s (event %d %q; context %v)", msg, i, e, inv.Trace[lo:i+1])
		}
		if skippedInCheck {
			return bad("the test case went on after its invariant had skipped (a skip in the invariant makes the test case invalid)")
		}
		switch {
		case e == "repeat>":
			// a (further) Repeat call begins: its invariant is due before anything else
			if inAct || inCheck {
				return bad("Repeat was entered while a callback of an earlier Repeat was running")
			}
			if !dead {
				expectCheck = hasInv
			}
		case inCheck && strings.HasPrefix(e, "skip "):
			skippedInCheck = true
		case e == "check>":
			if !started && !hasInv {
				return bad("an invariant ran although none was supplied")
			}
			started = true
			if dead {
				return bad("invariant ran after the run was falsified")
			}
			if inAct || inCheck {
				return bad("invariant started while another callback was running")
			}
			if !expectCheck {
				return bad("invariant ran when none was due (not before any action / not after a completed action)")
			}
			expectCheck, inCheck = false, true
		case e == "check<":
			inCheck = false
			if pendingNF {
				dead = true
			}
		case strings.HasPrefix(e, "act> "):
			started = true
			n := strings.TrimPrefix(e, "act> ")
			if !names[n] {
				return bad("an action ran that was not supplied: " + n)
			}
			if dead {
				return bad("an action ran after the run was falsified")
			}
			if inAct || inCheck {
				return bad("action started while another callback was running")
			}
			if expectCheck {
				return bad("action started although an invariant check was due (initial check or check after a completed action missing)")
			}
			inAct = true
		case strings.HasPrefix(e, "act< "):
			inAct = false
			switch {
			case strings.HasSuffix(e, " completed"):
				if pendingNF {
					dead = true
				} else if hasInv {
					expectCheck = true
				}
			case strings.HasSuffix(e, " aborted"):
				dead = true
			default: // skipped
				if pendingNF {
					dead = true
				}
			}
		case strings.HasPrefix(e, "signal "):
			f := strings.Fields(e)
			fatal := true
			switch f[1] {
			case "Error", "Errorf", "Fail", "Error-empty", "Errorf-empty", "Fatalf-recovered":
				fatal = false
			}
			if fatal {
				dead = true
			} else {
				pendingNF = true
			}
		}
	}
	if expectCheck && started && !dead && inv.Returned {
		return fmt.Sprintf("no invariant check after the last completed action (tail %v)", tail(inv.Trace, 6))
	}
	if hasInv && !started && inv.Returned && inv.repeatCalled {
		return "Repeat returned without having run the invariant once (no action ran either)"
	}
	return ""
}

func tail(xs []string, n int) []string {
	if len(xs) <= n {
		return xs
	}
	return xs[len(xs)-n:]
}

func completedActions(inv *Inv) (completed, attempts, skippedBefore int) {
	for _, e := range inv.Trace {
		if strings.HasPrefix(e, "act> ") {
			attempts++
		}
		if strings.HasPrefix(e, "act< ") {
			if strings.HasSuffix(e, " completed") {
				completed++
			}
			if strings.HasSuffix(e, " skipped-before-draw") {
				skippedBefore++
			}
		}
	}
	return
}

type c08sm struct {
	x func() *X
	c08helpers
}

// helper methods of a state-machine type (some promoted from an embedded struct) are not actions: an action is an
// exported method taking a *rapid.T or a rapid.TB and nothing else
type c08helpers struct{ log func(string) }

func (h c08helpers) Lock()   { h.log("act> Lock") }
func (h c08helpers) Unlock() { h.log("act> Unlock") }
func (m *c08sm) Reset()      { m.x().ev("act> Reset") }
func (m *c08sm) Close() error {
	m.x().ev("act> Close")
	return nil
}
func (m *c08sm) Len() int                   { return 0 }
func (m *c08sm) Two(a, b *rapid.T)          { m.x().ev("act> Two") }
func (m *c08sm) Variadic(ts ...*rapid.T)    { m.x().ev("act> Variadic") }
func (m *c08sm) WithResult(t *rapid.T) bool { m.x().ev("act> WithResult"); return true }

func (m *c08sm) Check(t *rapid.T) { x := m.x(); x.ev("check>"); x.ev("check<") }
func (m *c08sm) ActT(t *rapid.T) {
	x := m.x()
	x.ev("act> ActT")
	v := rapid.IntRange(0, 9).Draw(t, "v")
	if v == 9 {
		x.ev("act< ActT skipped-after-draw")
		t.Skip("nine")
	}
	x.ev("act< ActT completed")
}
func (m *c08sm) ActTB(t rapid.TB) {
	x := m.x()
	x.ev("act> ActTB")
	x.ev("act< ActTB completed")
}
func (m *c08sm) NotAnAction(t *rapid.T, extra int) { m.x().ev("act> NotAnAction") }
func (m *c08sm) AlsoNot() int                      { m.x().ev("act> AlsoNot"); return 0 }
func (m *c08sm) hidden(t *rapid.T)                 { m.x().ev("act> hidden") }

var c08stat = map[string]*struct{ cases, completed, attempts int64 }{}

func c08Run(t *testing.T, sc Scenario, res *Result) {
	defer os.RemoveAll("testdata")
	r := newRng(sc.Seed, 0xc08)
	switch sc.Family {
	case "machine", "stuck", "fuzz":
		failDen := r.between(8, 200)
		if r.chance(1, 4) || sc.Family == "stuck" {
			failDen = 0
		}
		m := genMachine(r, failDen)
		certainlyStuck := false
		if sc.Family == "stuck" {
			var keep []Step
			for _, is := range m.Inv {
				if is.Op != "skipif" {
					keep = append(keep, is)
				}
			}
			if m.Inv != nil {
				m.Inv = append([]Step{}, keep...) // a stuck machine has to be reported as such: no invalid cases through the invariant
			}
			// no action can run: from the start, or once the counter passes a bound
			bound := int64(-1)
			if r.chance(1, 2) {
				bound = int64(r.between(1, 12))
			}
			certainlyStuck = bound < 0      // no action can ever run: every invocation must end in the 'no valid action' failure
			byInvalidDraw := r.chance(1, 2) // the action gives up inside its first draw instead of calling Skip
			for i := range m.Acts {
				first := Step{Op: "skipif", Pred: Pred{Typ: "ctr", K: bound}}
				if byInvalidDraw {
					first = Step{Op: "invalidif", Pred: Pred{Typ: "ctr", K: bound}}
				}
				m.Acts[i].Steps = append([]Step{first}, m.Acts[i].Steps...)
				has := false
				for _, s := range m.Acts[i].Steps {
					if s.Op == "draw" {
						has = true
					}
				}
				if !has {
					m.Acts[i].Steps = append(m.Acts[i].Steps, Step{Op: "draw", GX: gxInt(r, gxOpts{small: true}), Label: "d"}, Step{Op: "add"})
				}
			}
		}
		p := &Prog{Seed: sc.Seed, Steps: []Step{m}}
		if sc.Family == "machine" && len(m.Acts) >= 2 && r.chance(1, 5) {
			// the property calls Repeat twice: first with a subset of the actions, then with all of them
			sub := m
			sub.Acts = append([]Action(nil), m.Acts[:(len(m.Acts)+1)/2]...)
			sub.Shared, sub.actsCache = false, nil
			p.Steps = []Step{sub, m}
			res.inc("machines_with_two_Repeat_calls")
		}
		invHashed := false
		for _, is := range m.Inv {
			invHashed = invHashed || is.Pred.Typ == "hash"
		}
		if r.chance(1, 3) || invHashed {
			p.Steps = append([]Step{{Op: "draw", GX: gxInt(r, gxOpts{}), Label: "pre"}}, p.Steps...)
		}
		p.Desc = ""
		for _, s := range p.Steps {
			p.Desc += s.describe() + "; "
		}
		names := map[string]bool{}
		for _, a := range m.Acts {
			names[a.Name] = true
		}
		steps := pick(r, []int{0, 1, 3, 10, 30, 100})
		if sc.Family == "stuck" && steps == 0 {
			steps = 1 // with no steps at all a stuck machine is never noticed (and need not be)
		}
		check := func(invs []*Inv, tbBrief []string) {
			for _, inv := range invs {
				if inv.trimmed {
					continue
				}
				res.inc("traces_checked")
				res.inc("phase:" + inv.phase())
				res.count("events", int64(len(inv.Trace)))
				c, a, _ := completedActions(inv)
				res.count("actions_completed", int64(c))
				res.count("action_attempts", int64(a))
				for _, e := range inv.Trace {
					if strings.HasPrefix(e, "act> ") {
						break
					}
					if strings.HasPrefix(e, "signal ") {
						res.inc("traces_falsified_by_the_initial_check")
						break
					}
				}
				for j, e := range inv.Trace {
					if strings.HasPrefix(e, "skip ") && j > 0 && inv.Trace[j-1] == "check>" {
						res.inc("traces_ended_by_a_skip_in_the_invariant")
					}
				}
				if c := judgeTrace(inv, names, m.Inv != nil); c != "" {
					res.violate(sc, "c08/"+firstWords(c, 5), c, map[string]any{"program": p.Desc, "steps": steps, "phase": inv.phase(), "tb": tbBrief})
					return
				}
				if len(inv.Trace) > 2 {
					res.nontrivial(strings.Join(shape(inv.Trace), " "))
				}
			}
		}
		neverRan := func(invs []*Inv) {
			// every supplied action is selected sooner or later (at most 6 actions, hundreds of attempts)
			seen := map[string]int{}
			total := 0
			for _, inv := range invs {
				if inv.phase() != "generate" {
					continue // minimisation candidates select the first action over and over
				}
				// only the attempts of the Repeat call that was given ALL the actions count (the last one of the program)
				markers, last := 0, -1
				for j, e := range inv.Trace {
					if e == "repeat>" {
						markers++
						last = j
					}
				}
				nRepeat := 0
				for _, st := range p.Steps {
					if st.Op == "repeat" {
						nRepeat++
					}
				}
				if markers != nRepeat || last < 0 {
					continue
				}
				for _, e := range inv.Trace[last:] {
					if strings.HasPrefix(e, "act> ") {
						seen[strings.TrimPrefix(e, "act> ")]++
						total++
					}
				}
			}
			if total < 600 {
				return
			}
			for n := range names {
				if seen[n] == 0 {
					res.violate(sc, "c08/action-never-ran", fmt.Sprintf("the supplied action %q was never executed in %d action attempts (other actions: %v)", n, total, seen), map[string]any{"program": p.Desc})
					return
				}
			}
			res.inc("machines_all_actions_seen")
		}
		if sc.Family == "fuzz" {
			lg := &Log{keepAll: true}
			fz := rapid.MakeFuzz(lg.prop(p.body()))
			fr := newRng(sc.Seed, 3)
			for i := 0; i < 60; i++ {
				in := hostileBytes(fr, 120)
				t.Run("f", func(s *testing.T) { fz(s, in) })
				res.inc("fuzz_cases")
			}
			check(lg.Invs, nil)
			return
		}
		fl := map[string]string{"rapid.steps": fmt.Sprint(steps), "rapid.checks": "40", "rapid.nofailfile": "true", "rapid.shrinktime": pick(r, []string{"0s", "50ms"})}
		lg := &Log{keepAll: true}
		setFlags(fl)
		tb := newTB("C08")
		runCheck(tb, lg.prop(p.body()))
		res.inc("checks_run")
		rp := parseReport(tb)
		check(lg.Invs, tb.brief())
		neverRan(lg.Invs)
		if sc.Family == "stuck" {
			// every invocation in which the machine got stuck must have ended in a failure after a bounded number of attempts
			stuckSeen := false
			for _, inv := range lg.Invs {
				_, attempts, _ := completedActions(inv)
				if attempts > 10000 {
					res.violate(sc, "c08/unbounded", fmt.Sprintf("%d action attempts in one invocation of a machine that cannot make progress", attempts), map[string]any{"program": p.Desc})
				}
				for _, it := range inv.Intents {
					if it.Kind == "stuck-machine" {
						stuckSeen = true
					}
				}
			}
			if certainlyStuck && (rp.Kind != "failed" || rp.M != noValidActionsMsg) {
				res.violate(sc, "c08/stuck-not-reported", "a machine none of whose actions can ever run did not end in the 'no valid action' failure: "+clip(rp.Kind+" "+rp.Raw, 200),
					map[string]any{"program": p.Desc, "tb": tb.brief(), "trace_of_first_case": clipList(lg.Invs[0].Trace, 30)})
				return
			}
			if !stuckSeen {
				res.inc("stuck_machine_not_reached")
				return
			}
			res.inc("stuck_machines")
			if rp.Kind != "failed" || rp.M != noValidActionsMsg {
				res.violate(sc, "c08/stuck-verdict", "a machine with no runnable action did not end in the 'no valid action' failure: "+clip(rp.Raw, 200), map[string]any{"program": p.Desc, "tb": tb.brief()})
			}
		}
		if res.wantSample() && r.chance(1, 10) && len(lg.Invs) > 0 {
			res.sample(map[string]any{"machine": p.Desc, "steps": steps, "verdict": rp.Kind, "trace_of_first_case": clipList(lg.Invs[0].Trace, 24)})
		}

	case "struct":
		// StateMachineActions: exported func(*T)/func(TB) methods are actions, Check is the invariant only
		lg := &Log{keepAll: true}
		sm := &c08sm{x: func() *X { return curX }, c08helpers: c08helpers{log: func(e string) { curX.ev("%s", e) }}}
		setFlags(map[string]string{"rapid.steps": "10", "rapid.checks": "30", "rapid.nofailfile": "true"})
		tb := newTB("C08s")
		runCheck(tb, lg.prop(func(x *X) { x.t.Repeat(rapid.StateMachineActions(sm)) }))
		res.inc("checks_run")
		names := map[string]bool{"ActT": true, "ActTB": true}
		saw := map[string]bool{}
		for _, inv := range lg.Invs {
			res.inc("traces_checked")
			// the struct's action closes its own bracket before skipping, so fix up the trace for the automaton
			if c := judgeTrace(inv, names, true); c != "" {
				res.violate(sc, "c08/struct-"+firstWords(c, 4), c, map[string]any{"tb": tb.brief()})
				break
			}
			for _, e := range inv.Trace {
				if strings.HasPrefix(e, "act> ") {
					saw[strings.TrimPrefix(e, "act> ")] = true
				}
			}
		}
		if !saw["ActT"] || !saw["ActTB"] {
			res.violate(sc, "c08/struct-missing", fmt.Sprintf("StateMachineActions did not offer both method forms as actions: saw %v", saw), nil)
		}
		if tb.Failed() {
			res.violate(sc, "c08/struct-failed", "never-failing struct machine failed: "+clip(parseReport(tb).Raw, 200), nil)
		}
		res.nontrivial("struct-machine")

	case "steps":
		// "an action that skips is not counted as a step": every second attempt skips before drawing
		st := Step{Op: "repeat", Acts: []Action{
			{Name: "A", Steps: []Step{{Op: "skipif", Pred: Pred{Typ: "attempt", M: 2}}, {Op: "draw", GX: gxInt(r, gxOpts{small: true}), Label: "a"}}},
			{Name: "B", Steps: []Step{{Op: "skipif", Pred: Pred{Typ: "attempt", M: 2}}}},
		}}
		if sc.K == 1 {
			st.Inv = []Step{}
		}
		p := &Prog{Steps: []Step{st}}
		lg := &Log{keepAll: true}
		setFlags(map[string]string{"rapid.steps": fmt.Sprint(sc.N), "rapid.checks": "200", "rapid.nofailfile": "true", "rapid.seed": fmt.Sprint(sc.Seed%100000 + 1)})
		tb := newTB("C08steps")
		key := fmt.Sprintf("steps=%d", sc.N)
		if sc.K == 2 {
			if err := flag.Set("test.short", "true"); err != nil {
				return
			}
			defer flag.Set("test.short", "false")
			flag.Set("rapid.checks", "1000") // a fifth of them is run
			key += "short"
		}
		runCheck(tb, lg.prop(p.body()))
		if c08stat[key] == nil {
			c08stat[key] = &struct{ cases, completed, attempts int64 }{}
		}
		for _, inv := range lg.Invs {
			c, a, _ := completedActions(inv)
			c08stat[key].cases++
			c08stat[key].completed += int64(c)
			c08stat[key].attempts += int64(a)
		}
		res.count("stat_cases:"+key, int64(len(lg.Invs)))
	}
}

// shape abstracts a trace to its sequence of event classes (for counting distinct call orders).
func shape(tr []string) []string {
	var out []string
	for i, e := range tr {
		if i >= 40 {
			break
		}
		f := strings.Fields(e)
		s := f[0]
		if strings.HasPrefix(e, "act< ") {
			s = "act<" + f[len(f)-1]
		}
		if strings.HasPrefix(e, "signal ") {
			s = "sig:" + f[1]
		}
		out = append(out, s)
	}
	return out
}

func c08Finish(cfg runCfg, res *Result) {
	// per-shard partial sums; the runner adds them up and applies the band in finish_c08 (checks_meta)
	for key, s := range c08stat {
		res.count("stat_completed:"+key, s.completed)
		res.count("stat_attempts:"+key, s.attempts)
	}
}
