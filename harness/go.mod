module verif/harness

go 1.23

require (
	github.com/anishathalye/porcupine v1.3.0
	pgregory.net/rapid v0.0.0
)

replace pgregory.net/rapid => /repo
