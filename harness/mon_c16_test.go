package harness

// C16 — saving a fail file is atomic with respect to process crashes.
// Fault enumeration: a child process performs a real failing Check (fail files
// on) under strace; for every file-system-affecting system call the main
// thread issues while persisting, the child is re-run and killed (SIGKILL) on
// entry to exactly that call.  Oracle: directory contents + trace.

import (
	"bytes"
	"flag"
	"fmt"
	"os"
	"os/exec"
	"path/filepath"
	"regexp"
	"sort"
	"strconv"
	"strings"
	"syscall"
	"testing"

	"pgregory.net/rapid"
)

func init() {
	monitors["C16"] = &monitor{scenarios: c16Scenarios, run: c16Run}
}

const (
	c16MarkBegin = "/verif-c16-marker-begin"
	c16MarkEnd   = "/verif-c16-marker-end"
	c16Syscalls  = "mkdir,mkdirat,open,openat,creat,write,pwrite64,writev,close,rename,renameat,renameat2,unlink,unlinkat,rmdir,fsync,fdatasync,ftruncate,link,linkat,symlink,symlinkat,access,faccessat,faccessat2,chmod,fchmod,fchmodat"
)

type childSentinel struct{}

type childTB struct{ name string }

func (c *childTB) Helper()                   {}
func (c *childTB) Name() string              { return c.name }
func (c *childTB) Logf(string, ...any)       {}
func (c *childTB) Log(...any)                {}
func (c *childTB) Skipf(string, ...any)      { panic(childSentinel{}) }
func (c *childTB) Skip(...any)               { panic(childSentinel{}) }
func (c *childTB) SkipNow()                  { panic(childSentinel{}) }
func (c *childTB) Errorf(f string, a ...any) { fmt.Printf("TB-ERROR "+f+"\n", a...) }
func (c *childTB) Error(a ...any)            { fmt.Println(append([]any{"TB-ERROR"}, a...)...) }
func (c *childTB) Fatalf(f string, a ...any) { c.Errorf(f, a...); panic(childSentinel{}) }
func (c *childTB) Fatal(a ...any)            { c.Error(a...); panic(childSentinel{}) }
func (c *childTB) FailNow()                  { panic(childSentinel{}) }
func (c *childTB) Fail()                     {}
func (c *childTB) Failed() bool              { return false }

// c16Prop is the property both the child and the in-process re-check run.
func c16Prop(nlines, nelems int) func(t *rapid.T) {
	return func(t *rapid.T) {
		for i := 0; i < nlines; i++ {
			t.Logf("captured output line %d %s", i, os.Getenv("C16_LOGTAG"))
		}
		if nelems >= 0 {
			rapid.SliceOfN(rapid.Uint64(), nelems, nelems).Draw(t, "w")
		}
		if os.Getenv("C16_TWICE") == "1" && rapid.VerifStreamOf(t).Kind == "buffer" {
			return // a flaky property: it does not fail when a saved test case is replayed, only in the search
		}
		t.Fatalf("boom")
	}
}

// childMain runs on the main goroutine, which is locked to the main thread.
func childMain(mode string) int {
	if mode == "racecanary" {
		return raceCanaryChild()
	}
	if mode == "c04hist" {
		return c04HistoryChild()
	}
	if mode != "c16" {
		fmt.Println("unknown child mode", mode)
		return 2
	}
	nlines, _ := strconv.Atoi(os.Getenv("C16_LINES"))
	nelems, _ := strconv.Atoi(os.Getenv("C16_ELEMS"))
	shrinktime := "0s"
	if os.Getenv("C16_SHRINK") == "1" {
		shrinktime = "60s" // minimisation runs to its end (milliseconds); the crash window then includes all of it
	}
	for k, v := range map[string]string{"rapid.seed": os.Getenv("C16_SEED"), "rapid.shrinktime": shrinktime, "rapid.checks": "5", "rapid.failfile": os.Getenv("C16_FAILFILE")} {
		if err := flag.Set(k, v); err != nil {
			fmt.Println(err)
			return 2
		}
	}
	tb := &childTB{name: os.Getenv("C16_NAME")}
	_ = syscall.Access(c16MarkBegin, 0)
	func() {
		defer func() {
			if p := recover(); p != nil {
				if _, ok := p.(childSentinel); !ok {
					panic(p)
				}
			}
		}()
		rapid.Check(tb, c16Prop(nlines, nelems))
	}()
	if os.Getenv("C16_TWICE") == "1" {
		// the same (flaky) test fails a second time in the same process and, nearly always, in the same second: the
		// fail file of the first failure "no longer fails", the search fails again, and the second save goes to a
		// name that exists already
		tb2 := &childTB{name: os.Getenv("C16_NAME")}
		func() {
			defer func() {
				if p := recover(); p != nil {
					if _, ok := p.(childSentinel); !ok {
						panic(p)
					}
				}
			}()
			rapid.Check(tb2, c16Prop(nlines, nelems))
		}()
	}
	_ = syscall.Access(c16MarkEnd, 0)
	return 0
}

func c16Scenarios(cfg runCfg) []Scenario {
	var out []Scenario
	lines := []int{0, 1, 3, 40}
	elems := []int{-1, 0, 1, 10, 100, 1000}
	names := []string{"TestCrash", "Test/sub case#01", "Тест*?", "a/b\\c"}
	n := cfg.n(96, 10)
	for i := 0; i < n; i++ {
		if cfg.mine(i) {
			sc := Scenario{Family: "crash", Seed: mix(cfg.seed, 16, uint64(i)), N: lines[i%len(lines)], K: elems[(i/2)%len(elems)], S: names[(i/3)%len(names)]}
			if mix(cfg.seed, 1616, uint64(i))%3 == 0 {
				// the system temp directory on another file system than the working directory (rename across
				// file systems fails with EXDEV): irrelevant as long as the temp file lives next to its target
				sc.X = map[string]string{"tmpdir": "/dev/shm"}
			}
			if mix(cfg.seed, 1617, uint64(i))%3 == 0 && sc.K <= 100 {
				// minimisation runs (to its end) before the save: the crash window is the whole failing Check
				if sc.X == nil {
					sc.X = map[string]string{}
				}
				sc.X["shrink"] = "1"
			}
			out = append(out, sc)
		}
	}
	for i := 0; i < cfg.n(8, 10); i++ {
		if cfg.mine(i) {
			out = append(out, Scenario{Family: "crash", Seed: mix(cfg.seed, 16, 77, uint64(i)), N: lines[i%len(lines)], K: elems[1+i%3], S: names[i%len(names)], X: map[string]string{"twice": "1"}})
		}
	}
	// the failing run was started with -rapid.failfile=<a file that is missing or no longer reproduces a failure>
	for i := 0; i < cfg.n(12, 6); i++ {
		if cfg.mine(i) {
			out = append(out, Scenario{Family: "crash", Seed: mix(cfg.seed, 16, 55, uint64(i)), N: []int{0, 1, 3}[i%3], K: []int{1, 10, 100}[(i/3)%3], S: names[i%len(names)],
				X: map[string]string{"explicit": []string{"missing", "stale-in-dir", "stale-elsewhere", "missing-in-dir"}[i%4]}})
		}
	}
	// the failing run finds a usable fail file (of an earlier run, with other captured output) and reproduces from it
	for i := 0; i < cfg.n(12, 6); i++ {
		if cfg.mine(i) {
			out = append(out, Scenario{Family: "crash", Seed: mix(cfg.seed, 16, 56, uint64(i)), N: []int{1, 3, 40}[i%3], K: []int{0, 1, 10, 100}[(i/3)%4], S: names[i%len(names)],
				X: map[string]string{"existing": []string{"glob", "flag", "flag-elsewhere"}[i%3]}})
		}
	}
	// faults: a system call of the save fails (disk full, permissions, rename across devices ...), and the process is
	// then killed at every later call of the error path
	for i := 0; i < cfg.n(16, 6); i++ {
		if cfg.mine(i) {
			out = append(out, Scenario{Family: "crash", Seed: mix(cfg.seed, 16, 99, uint64(i)), N: []int{0, 1, 3}[i%3], K: elems[(i/3)%4], S: names[i%len(names)], X: map[string]string{"fault": "1"}})
		}
	}
	return out
}

type c16Point struct {
	name string
	j    int // ordinal among the main thread's calls of that name since process start
	args string
}

// c16SaveTrace cuts the main thread's calls between the two markers out of a trace and lists the file-system-affecting
// ones with their per-name ordinals (the coordinates strace's when= counts in).
func c16SaveTrace(trace []scLine) (mainPid string, saveTrace []scLine, points []c16Point, sawEnd bool) {
	mainPid = trace[0].pid
	counts := map[string]int{}
	inSave := false
	for _, l := range trace {
		if l.pid != mainPid || l.name == "+++" {
			continue
		}
		counts[l.name]++
		if strings.Contains(l.rest, c16MarkBegin) {
			inSave = true
			continue
		}
		if strings.Contains(l.rest, c16MarkEnd) {
			inSave = false
			sawEnd = true
			continue
		}
		if !inSave {
			continue
		}
		saveTrace = append(saveTrace, l)
		switch l.name {
		case "access", "faccessat", "faccessat2":
			continue // reads only
		}
		points = append(points, c16Point{l.name, counts[l.name], clip(l.rest, 90)})
	}
	return
}

type scLine struct {
	pid  string
	name string
	rest string
}

var reStrace = regexp.MustCompile(`^(\d+)\s+([a-z0-9_]+)\((.*)$`)

func parseStrace(path string) []scLine {
	b, err := os.ReadFile(path)
	if err != nil {
		return nil
	}
	var out []scLine
	for _, l := range strings.Split(string(b), "\n") {
		if m := reStrace.FindStringSubmatch(l); m != nil {
			out = append(out, scLine{m[1], m[2], m[3]})
		} else if strings.Contains(l, "+++ killed by") || strings.Contains(l, "+++ exited") {
			f := strings.Fields(l)
			out = append(out, scLine{f[0], "+++", l})
		}
	}
	return out
}

func (sc Scenario) c16Env() []string {
	env := os.Environ()
	if td := sc.X["tmpdir"]; td != "" {
		if st, err := os.Stat(td); err == nil && st.IsDir() {
			env = append(env, "TMPDIR="+td)
		}
	}
	if sc.X["twice"] == "1" {
		env = append(env, "C16_TWICE=1")
	}
	if sc.X["shrink"] == "1" {
		env = append(env, "C16_SHRINK=1")
	}
	if ex := sc.X["explicit"]; ex != "" {
		env = append(env, "C16_FAILFILE="+c16ExplicitPath(sc))
	}
	if strings.HasPrefix(sc.X["existing"], "flag") {
		env = append(env, "C16_FAILFILE="+c16ExistingPath(sc))
	}
	if sc.X["existing"] != "" {
		env = append(env, "C16_LOGTAG=second run")
	}
	if lt := sc.X["logtag"]; lt != "" {
		env = append(env, "C16_LOGTAG="+lt)
	}
	return append(env, "C16_NAME="+sc.S, fmt.Sprintf("C16_LINES=%d", sc.N), fmt.Sprintf("C16_ELEMS=%d", sc.K), fmt.Sprintf("C16_SEED=%d", sc.Seed%100000+1), "GOMAXPROCS=1", "GOGC=off")
}

func runChild(sc Scenario, dir string, inject string) (trace []scLine, killed bool, err error) {
	if inject == "" {
		return runChildMulti(sc, dir, nil)
	}
	return runChildMulti(sc, dir, []string{inject})
}

func runChildMulti(sc Scenario, dir string, injects []string) (trace []scLine, killed bool, err error) {
	self, _ := os.Executable()
	os.MkdirAll(dir, 0o775)
	log := filepath.Join(dir, "..", filepath.Base(dir)+".strace")
	args := []string{"-f", "-o", log, "-e", "trace=" + c16Syscalls}
	for _, inject := range injects {
		args = append(args, "-e", "inject="+inject)
	}
	args = append(args, self, "-verif.child=c16")
	cmd := exec.Command("strace", args...)
	cmd.Dir = dir
	cmd.Env = sc.c16Env()
	out, runErr := cmd.CombinedOutput()
	trace = parseStrace(log)
	os.Remove(log)
	for _, l := range trace {
		if l.name == "+++" && strings.Contains(l.rest, "killed by SIGKILL") {
			killed = true
		}
	}
	if runErr != nil && !killed {
		return trace, killed, fmt.Errorf("child failed: %v: %s", runErr, clip(string(out), 400))
	}
	return trace, killed, nil
}

var reStamp = regexp.MustCompile(`\d{4}/\d{2}/\d{2} \d{2}:\d{2}:\d{2}\.\d{6}`)

func normFailFile(b []byte) string { return reStamp.ReplaceAllString(string(b), "<T>") }

func c16Run(t *testing.T, sc Scenario, res *Result) {
	base, err := os.MkdirTemp(".", "c16-")
	if err != nil {
		panic(err)
	}
	base, _ = filepath.Abs(base)
	defer os.RemoveAll(base)
	name := sc.S

	if sc.X["explicit"] != "" {
		c16Explicit(sc, res, base)
		return
	}
	if sc.X["existing"] != "" {
		c16Existing(sc, res, base)
		return
	}
	// step 1: uninterrupted reference run, traced
	refDir := filepath.Join(base, "ref")
	trace, _, err := runChild(sc, refDir, "")
	if err != nil || len(trace) == 0 {
		res.inconclusive(fmt.Sprintf("reference run failed: %v", err))
		return
	}
	mainPid, saveTrace, points, sawEnd := c16SaveTrace(trace)
	if !sawEnd || len(points) == 0 {
		res.inconclusive(fmt.Sprintf("markers not found in the reference trace (%d lines)", len(trace)))
		return
	}
	wd, _ := os.Getwd()
	os.Chdir(refDir)
	refFinal, refTemps, _ := listFailDir(name)
	os.Chdir(wd)
	twice := sc.X["twice"] == "1"
	if twice && len(refFinal) == 2 && len(refTemps) == 0 {
		refFinal = refFinal[1:] // the two saves fell into different seconds: two names, nothing was replaced
		res.inc("twice_two_names")
	}
	if len(refFinal) != 1 || len(refTemps) != 0 {
		res.violate(sc, "c16/ref-dir", fmt.Sprintf("uninterrupted save left %d fail files and %d temp files", len(refFinal), len(refTemps)), map[string]any{"trace": traceStr(saveTrace, 40)})
		return
	}
	refBytes, _ := os.ReadFile(filepath.Join(refDir, refFinal[0]))
	refNorm := normFailFile(refBytes)
	_, _, refWords, _, err := readFailFile(filepath.Join(refDir, refFinal[0]))
	if err != nil {
		res.violate(sc, "c16/ref-parse", "reference fail file does not parse: "+err.Error(), nil)
		return
	}
	res.inc("scenarios_traced")
	res.count("save_syscalls", int64(len(points)))

	san := sanitize(name)
	c16TraceOracle(sc, res, saveTrace, san, "")

	if twice {
		// two saves under one name: judged on the trace (no write access to a name that is picked up) and on the result
		res.inc("twice_same_name_traced")
		res.inc("crash_runs") // (one traced run)
		res.nontrivial(fmt.Sprintf("twice/%s/%d/%d", name, sc.N, sc.K))
		return
	}
	if sc.X["fault"] == "1" {
		c16Fault(sc, res, base, points, refNorm, refWords)
		return
	}
	// step 2: kill the child on entry to every one of those calls
	states := map[string]int{}
	for pi, p := range points {
		dir := filepath.Join(base, fmt.Sprintf("k%03d", pi))
		tr, killed, err := runChild(sc, dir, fmt.Sprintf("%s:signal=KILL:when=%d", p.name, p.j))
		res.inc("crash_runs")
		if err != nil {
			res.inconclusive("crash run failed to start: " + err.Error())
			continue
		}
		if !killed {
			res.inc("crash_point_not_reached")
			res.inconclusive(fmt.Sprintf("child survived injection %s#%d", p.name, p.j))
			continue
		}
		// where did the kill land?
		landed := "?"
		for i := len(tr) - 1; i >= 0; i-- {
			if tr[i].name != "+++" {
				landed = tr[i].name
				if tr[i].pid == mainPid || true {
					break
				}
			}
		}
		res.inc("killed_at:" + landed)
		res.nontrivial(fmt.Sprintf("%x/%s#%d", sc.Seed, p.name, p.j))
		os.Chdir(dir)
		final, temps, _ := listFailDir(name)
		state := fmt.Sprintf("final=%d,temp=%d", len(final), len(temps))
		states[state]++
		res.inc("dirstate:" + state)
		detail := map[string]any{"crash_point": fmt.Sprintf("%s #%d %s", p.name, p.j, p.args), "index": pi, "of": len(points), "final_files": final, "temp_files": temps, "save_trace": traceStr(saveTrace, 60)}
		for _, f := range final {
			b, _ := os.ReadFile(f)
			if _, _, _, _, err := readFailFile(f); err != nil {
				res.violate(sc, "c16/partial-visible", fmt.Sprintf("after a kill at %s#%d a file that a later run picks up does not parse: %v (%d bytes)", p.name, p.j, err, len(b)), detail)
			} else if normFailFile(b) != refNorm {
				res.violate(sc, "c16/incomplete-visible", fmt.Sprintf("after a kill at %s#%d a picked-up fail file differs from an uninterrupted save (%d vs %d bytes)", p.name, p.j, len(b), len(refBytes)), detail)
			}
		}
		// a later run in that directory: replays the complete file or finds nothing; never trips over leftovers
		lg := &Log{}
		setFlags(map[string]string{"rapid.nofailfile": "true", "rapid.shrinktime": "0s", "rapid.checks": "5", "rapid.seed": fmt.Sprint(sc.Seed%100000 + 1)})
		tb := newTB(name)
		prop := c16Prop(sc.N, sc.K)
		runCheck(tb, lg.prop(func(x *X) { prop(x.t) }))
		rp := parseReport(tb)
		for _, l := range tb.logs() {
			if strings.Contains(l, "ignoring fail file") || strings.Contains(l, "no longer") {
				detail["later_run"] = tb.brief()
				res.violate(sc, "c16/later-run-trips", "a later run tripped over what the killed save left behind: "+clip(l, 200), detail)
			}
		}
		if len(final) > 0 {
			if rp.N != 0 || len(lg.Invs) == 0 || lg.Invs[0].Kind != "buffer" || !wordsEqual(lg.Invs[0].Cand, refWords) {
				detail["later_run"] = tb.brief()
				res.violate(sc, "c16/later-run-replay", "a complete fail file was left but the later run did not replay the reference test case first", detail)
			}
			res.inc("later_run_replayed")
		} else {
			if len(lg.Invs) > 0 && lg.Invs[0].Kind == "buffer" {
				detail["later_run"] = tb.brief()
				res.violate(sc, "c16/later-run-phantom", "no complete fail file exists but the later run replayed something", detail)
			}
			res.inc("later_run_found_nothing")
			// history: the killed save is followed by another, SHORTER save in the same directory (whatever the
			// killed run left behind must not leak into it), which the run after that must pick up
			setFlags(map[string]string{"rapid.shrinktime": "0s", "rapid.checks": "5", "rapid.seed": fmt.Sprint(sc.Seed%100000 + 7)})
			tb2 := newTB(name)
			small := c16Prop(0, -1)
			runCheck(tb2, small)
			rp2 := parseReport(tb2)
			f2, _, _ := listFailDir(name)
			if len(f2) != 1 {
				detail["second_save"] = tb2.brief()
				res.violate(sc, "c16/second-save-count", fmt.Sprintf("%d fail files after a save that followed a killed save (expected 1)", len(f2)), detail)
			} else if _, _, w2, _, err := readFailFile(f2[0]); err != nil || len(w2) != 0 {
				b2, _ := os.ReadFile(f2[0])
				detail["second_file"] = clip(string(b2), 600)
				res.violate(sc, "c16/second-save-corrupt", fmt.Sprintf("a save that followed a killed save produced a fail file that is not what was saved (parse error %v, %d words, expected 0)", err, len(w2)), detail)
			} else {
				lg3 := &Log{}
				tb3 := newTB(name)
				setFlags(map[string]string{"rapid.nofailfile": "true", "rapid.shrinktime": "0s", "rapid.checks": "5"})
				runCheck(tb3, lg3.prop(func(x *X) { small(x.t) }))
				if rp3 := parseReport(tb3); rp3.N != 0 || len(lg3.Invs) == 0 || lg3.Invs[0].Kind != "buffer" {
					detail["third_run"] = tb3.brief()
					res.violate(sc, "c16/second-save-not-replayed", "the fail file saved after a killed save was not replayed by the next run", detail)
				}
				_ = rp2
			}
			res.inc("second_saves_after_kill")
		}
		os.Chdir(wd)
		os.RemoveAll(dir)
	}
	if res.wantSample() {
		var pts []string
		for _, p := range points {
			pts = append(pts, fmt.Sprintf("%s#%d %s", p.name, p.j, clip(p.args, 60)))
		}
		sort.Strings(pts)
		res.sample(map[string]any{"name": name, "output_lines": sc.N, "slice_elems": sc.K, "fail_file_bytes": len(refBytes), "crash_points": clipList(pts, 40), "directory_states_after_kill": states})
	}
}

// c16TraceOracle: a name that is picked up only ever appears as the target of a rename whose source was closed after its
// last write; it is never opened for writing, created or linked directly.
func c16TraceOracle(sc Scenario, res *Result, saveTrace []scLine, san string, tag string) {
	// trace oracle: the final name only ever appears as a rename target whose source was closed after its last write
	finalRe := regexp.MustCompile(`"[^"]*/` + regexp.QuoteMeta(san) + `-[^"/]*\.fail"`)
	openFds := map[string]string{} // fd -> path
	closedTemp := map[string]bool{}
	for _, l := range saveTrace {
		switch l.name {
		case "openat", "open", "creat":
			if finalRe.MatchString(l.rest) && (strings.Contains(l.rest, "O_WRONLY") || strings.Contains(l.rest, "O_RDWR") || strings.Contains(l.rest, "O_CREAT") || l.name == "creat") {
				res.violate(sc, "c16/trace-open-final"+tag, "a file matching the discovery pattern was opened for writing / created directly: "+clip(l.rest, 200), map[string]any{"trace": traceStr(saveTrace, 60)})
			}
			if i := strings.LastIndex(l.rest, "= "); i >= 0 {
				if q := strings.Split(l.rest, `"`); len(q) >= 2 {
					openFds[strings.TrimSpace(l.rest[i+2:])] = q[1]
				}
			}
		case "close":
			fd := strings.TrimSuffix(strings.SplitN(l.rest, ")", 2)[0], " ")
			if p, ok := openFds[fd]; ok {
				closedTemp[filepath.Base(p)] = true
				delete(openFds, fd)
			}
		case "rename", "renameat", "renameat2":
			q := strings.Split(l.rest, `"`)
			if len(q) >= 4 {
				src, dst := q[1], q[3]
				if finalRe.MatchString(`"`+dst+`"`) || strings.HasSuffix(dst, ".fail") {
					if !closedTemp[filepath.Base(src)] {
						res.violate(sc, "c16/trace-rename-open"+tag, "temp file renamed to the final name before it was closed: "+clip(l.rest, 200), map[string]any{"trace": traceStr(saveTrace, 60)})
					}
					for fd, p := range openFds {
						if filepath.Base(p) == filepath.Base(src) {
							res.violate(sc, "c16/trace-rename-open"+tag, fmt.Sprintf("temp file %s still open (fd %s) when renamed", p, fd), map[string]any{"trace": traceStr(saveTrace, 60)})
						}
					}
				}
			}
		case "link", "linkat", "symlink", "symlinkat":
			if finalRe.MatchString(l.rest) {
				res.violate(sc, "c16/trace-link"+tag, "final name created by link: "+clip(l.rest, 200), nil)
			}
		}
	}
}

func traceStr(tr []scLine, n int) []string {
	var out []string
	for i, l := range tr {
		if i >= n {
			out = append(out, fmt.Sprintf("...+%d", len(tr)-i))
			break
		}
		out = append(out, l.name+"("+clip(l.rest, 110))
	}
	return out
}

func c16Errno(name string, variant int) string {
	switch name {
	case "mkdir", "mkdirat":
		return []string{"EACCES", "ENOSPC", "EROFS"}[variant%3]
	case "open", "openat", "creat":
		return []string{"ENOSPC", "EMFILE", "EACCES"}[variant%3]
	case "write", "pwrite64", "writev":
		return []string{"ENOSPC", "EIO", "EDQUOT"}[variant%3]
	case "close", "fsync", "fdatasync":
		return []string{"EIO", "ENOSPC", "EIO"}[variant%3]
	case "rename", "renameat", "renameat2":
		return []string{"EXDEV", "EACCES", "ENOSPC"}[variant%3]
	case "unlink", "unlinkat":
		return []string{"EACCES", "EBUSY", "EIO"}[variant%3]
	}
	return "EIO"
}

// c16Fault: one system call of the save fails with an error; the faulted run is traced (same trace oracle), its final
// directory is judged, and the process is killed at every later file-system call of the path the library then takes
// (strace keeps one injection per system-call name, so the kill points are those of other names than the failed call).
func c16Fault(sc Scenario, res *Result, base string, points []c16Point, refNorm string, refWords []uint64) {
	name := sc.S
	san := sanitize(name)
	wd, _ := os.Getwd()
	r := newRng(sc.Seed, 0xc16f)
	judgeDir := func(dir, what string, detail map[string]any) {
		os.Chdir(dir)
		defer os.Chdir(wd)
		final, temps, _ := listFailDir(name)
		detail["final_files"], detail["temp_files"] = final, temps
		res.inc(fmt.Sprintf("fault_dirstate:final=%d,temp=%d", len(final), len(temps)))
		for _, f := range final {
			b, _ := os.ReadFile(f)
			if _, _, _, _, err := readFailFile(f); err != nil {
				res.violate(sc, "c16/fault-partial-visible", fmt.Sprintf("%s: a file that a later run picks up does not parse: %v (%d bytes)", what, err, len(b)), detail)
			} else if normFailFile(b) != refNorm {
				res.violate(sc, "c16/fault-incomplete-visible", fmt.Sprintf("%s: a picked-up fail file differs from an uninterrupted save (%d vs %d bytes)", what, len(b), len(refNorm)), detail)
			}
		}
		// a later run in that directory replays the complete file or finds nothing
		lg := &Log{}
		setFlags(map[string]string{"rapid.nofailfile": "true", "rapid.shrinktime": "0s", "rapid.checks": "5", "rapid.seed": fmt.Sprint(sc.Seed%100000 + 1)})
		tb := newTB(name)
		prop := c16Prop(sc.N, sc.K)
		runCheck(tb, lg.prop(func(x *X) { prop(x.t) }))
		rp := parseReport(tb)
		for _, l := range tb.logs() {
			if strings.Contains(l, "ignoring fail file") || strings.Contains(l, "no longer") {
				detail["later_run"] = tb.brief()
				res.violate(sc, "c16/fault-later-run-trips", what+": a later run tripped over what was left behind: "+clip(l, 200), detail)
			}
		}
		if len(final) > 0 {
			if rp.N != 0 || len(lg.Invs) == 0 || lg.Invs[0].Kind != "buffer" || !wordsEqual(lg.Invs[0].Cand, refWords) {
				detail["later_run"] = tb.brief()
				res.violate(sc, "c16/fault-later-run-replay", what+": a complete fail file was left but the later run did not replay the reference test case first", detail)
			}
			res.inc("fault_later_run_replayed")
		} else if len(lg.Invs) > 0 && lg.Invs[0].Kind == "buffer" {
			detail["later_run"] = tb.brief()
			res.violate(sc, "c16/fault-later-run-phantom", what+": no complete fail file exists but the later run replayed something", detail)
		}
	}
	// fault points: quick = first and last call of every name; thorough = every call
	var fps []int
	if *fTier == "thorough" {
		for i := range points {
			fps = append(fps, i)
		}
	} else {
		first, last := map[string]int{}, map[string]int{}
		for i, p := range points {
			if _, ok := first[p.name]; !ok {
				first[p.name] = i
			}
			last[p.name] = i
		}
		seen := map[int]bool{}
		for i := range points {
			if (first[points[i].name] == i || last[points[i].name] == i) && !seen[i] {
				seen[i] = true
				fps = append(fps, i)
			}
		}
	}
	for _, fi := range fps {
		fp := points[fi]
		errno := c16Errno(fp.name, int(r.next()%3))
		inj := fmt.Sprintf("%s:error=%s:when=%d", fp.name, errno, fp.j)
		dir := filepath.Join(base, fmt.Sprintf("f%03d", fi))
		tr, killed, err := runChild(sc, dir, inj)
		res.inc("fault_runs")
		if err != nil || killed || len(tr) == 0 {
			res.inconclusive(fmt.Sprintf("faulted run did not complete: %v", err))
			os.RemoveAll(dir)
			continue
		}
		_, ftrace, fpoints, sawEnd := c16SaveTrace(tr)
		if !sawEnd {
			res.inconclusive("markers not found in the faulted trace")
			os.RemoveAll(dir)
			continue
		}
		hit := false
		for _, l := range ftrace {
			if l.name == fp.name && strings.Contains(l.rest, "(INJECTED)") {
				hit = true
			}
		}
		if !hit {
			res.inc("fault_not_injected")
			os.RemoveAll(dir)
			continue
		}
		res.inc("fault_injected:" + fp.name + "=" + errno)
		res.nontrivial(fmt.Sprintf("fault/%x/%s#%d=%s", sc.Seed, fp.name, fp.j, errno))
		what := fmt.Sprintf("after %s#%d failed with %s", fp.name, fp.j, errno)
		c16TraceOracle(sc, res, ftrace, san, "/fault")
		judgeDir(dir, what, map[string]any{"fault": inj, "trace": traceStr(ftrace, 60)})
		os.RemoveAll(dir)
		// kill points: the calls after the failed one, of other names
		after := false
		for ki, kp := range fpoints {
			if !after {
				if kp.name == fp.name && kp.j == fp.j {
					after = true
				}
				continue
			}
			if kp.name == fp.name {
				res.inc("fault_kill_points_same_name(skipped)")
				continue
			}
			kdir := filepath.Join(base, fmt.Sprintf("f%03dk%03d", fi, ki))
			cmdInj := inj
			_, kkilled, kerr := runChildMulti(sc, kdir, []string{cmdInj, fmt.Sprintf("%s:signal=KILL:when=%d", kp.name, kp.j)})
			res.inc("fault_crash_runs")
			if kerr != nil {
				res.inconclusive("fault+crash run failed to start: " + kerr.Error())
				os.RemoveAll(kdir)
				continue
			}
			if !kkilled {
				res.inc("fault_crash_point_not_reached")
				os.RemoveAll(kdir)
				continue
			}
			res.inc("fault_killed_at:" + kp.name)
			res.nontrivial(fmt.Sprintf("fault/%x/%s#%d=%s/kill:%s#%d", sc.Seed, fp.name, fp.j, errno, kp.name, kp.j))
			judgeDir(kdir, fmt.Sprintf("%s and a kill at %s#%d", what, kp.name, kp.j), map[string]any{"fault": inj, "crash_point": fmt.Sprintf("%s #%d %s", kp.name, kp.j, kp.args), "faulted_trace": traceStr(ftrace, 60)})
			os.RemoveAll(kdir)
		}
	}
	if res.wantSample() {
		res.sample(map[string]any{"family": "fault", "name": name, "output_lines": sc.N, "slice_elems": sc.K, "fault_points": len(fps), "save_syscalls": len(points)})
	}
}

// the path given with -rapid.failfile (relative to the child's working directory)
func c16ExplicitPath(sc Scenario) string {
	san := sanitize(sc.S)
	switch sc.X["explicit"] {
	case "stale-in-dir", "missing-in-dir":
		return filepath.Join("testdata", "rapid", san, san+"-20200101000000-1.fail")
	case "stale-elsewhere":
		return filepath.Join("saved", "case.fail")
	}
	return "no-such-file.fail"
}

// c16Explicit: the failing run was started with -rapid.failfile naming a file that is missing or that no longer
// reproduces a failure (a complete fail file of this version whose data is too short now).  A later run with the same
// command line picks that path up, so it is a picked-up name like the ones the glob finds: it is never opened for
// writing, and at every crash point it holds either exactly what it held before or a complete save.
func c16Explicit(sc Scenario, res *Result, base string) {
	name := sc.S
	san := sanitize(name)
	wd, _ := os.Getwd()
	expl := c16ExplicitPath(sc)
	stale := []byte("# stale but complete fail file planted by the harness\n" + rapidVersion() + "#12345")
	planted := strings.HasPrefix(sc.X["explicit"], "stale")
	plant := func(dir string) {
		os.MkdirAll(dir, 0o775)
		if planted {
			os.MkdirAll(filepath.Join(dir, filepath.Dir(expl)), 0o775)
			if err := os.WriteFile(filepath.Join(dir, expl), stale, 0o664); err != nil {
				panic(err)
			}
		}
	}
	refDir := filepath.Join(base, "ref")
	plant(refDir)
	trace, _, err := runChild(sc, refDir, "")
	if err != nil || len(trace) == 0 {
		res.inconclusive(fmt.Sprintf("reference run failed: %v", err))
		return
	}
	_, saveTrace, points, sawEnd := c16SaveTrace(trace)
	if !sawEnd || len(points) == 0 {
		res.inconclusive("markers not found in the reference trace")
		return
	}
	// what did the uninterrupted run leave?
	os.Chdir(refDir)
	final, temps, _ := listFailDir(name)
	os.Chdir(wd)
	var fresh []string
	for _, f := range final {
		if filepath.Clean(f) != filepath.Clean(expl) {
			fresh = append(fresh, f)
		}
	}
	explNow, _ := os.ReadFile(filepath.Join(refDir, expl))
	var refNorm string
	switch {
	case len(fresh) == 1 && len(temps) == 0:
		b, _ := os.ReadFile(filepath.Join(refDir, fresh[0]))
		refNorm = normFailFile(b)
	case len(fresh) == 0 && len(temps) == 0 && len(explNow) > 0 && !bytes.Equal(explNow, stale):
		refNorm = normFailFile(explNow) // the library chose to save under the given name: legal if done atomically
	default:
		res.violate(sc, "c16/explicit-ref-dir", fmt.Sprintf("uninterrupted failing run with -rapid.failfile=%s left %d new fail files and %d temp files", expl, len(fresh), len(temps)), map[string]any{"trace": traceStr(saveTrace, 40)})
		return
	}
	res.inc("scenarios_traced")
	res.inc("explicit_scenarios:" + sc.X["explicit"])
	res.count("save_syscalls", int64(len(points)))
	c16TraceOracle(sc, res, saveTrace, san, "/explicit")
	// the given path itself must not be opened for writing either
	q := `"` + expl + `"`
	for _, l := range saveTrace {
		switch l.name {
		case "openat", "open", "creat":
			if strings.Contains(l.rest, q) && (strings.Contains(l.rest, "O_WRONLY") || strings.Contains(l.rest, "O_RDWR") || strings.Contains(l.rest, "O_CREAT") || l.name == "creat") {
				res.violate(sc, "c16/explicit-open-for-writing", "the file named by -rapid.failfile (picked up by the next run with the same command line) was opened for writing / created directly: "+clip(l.rest, 200), map[string]any{"trace": traceStr(saveTrace, 60)})
			}
		case "truncate", "ftruncate":
			if strings.Contains(l.rest, q) {
				res.violate(sc, "c16/explicit-open-for-writing", "the file named by -rapid.failfile was truncated in place: "+clip(l.rest, 200), nil)
			}
		}
	}
	for pi, p := range points {
		dir := filepath.Join(base, fmt.Sprintf("x%03d", pi))
		plant(dir)
		_, killed, err := runChild(sc, dir, fmt.Sprintf("%s:signal=KILL:when=%d", p.name, p.j))
		res.inc("crash_runs")
		res.inc("explicit_crash_runs")
		if err != nil {
			res.inconclusive("crash run failed to start: " + err.Error())
			os.RemoveAll(dir)
			continue
		}
		if !killed {
			res.inc("crash_point_not_reached")
			res.inconclusive(fmt.Sprintf("child survived injection %s#%d", p.name, p.j))
			os.RemoveAll(dir)
			continue
		}
		res.inc("killed_at:" + p.name)
		res.nontrivial(fmt.Sprintf("explicit/%x/%s#%d", sc.Seed, p.name, p.j))
		os.Chdir(dir)
		final, temps, _ := listFailDir(name)
		detail := map[string]any{"crash_point": fmt.Sprintf("%s #%d %s", p.name, p.j, p.args), "failfile_flag": expl, "final_files": final, "temp_files": temps, "save_trace": traceStr(saveTrace, 60)}
		check := func(f string, b []byte) {
			if planted && filepath.Clean(f) == filepath.Clean(expl) && bytes.Equal(b, stale) {
				res.inc("explicit_file_untouched")
				return
			}
			if _, _, _, _, err := readFailFile(f); err != nil {
				res.violate(sc, "c16/explicit-partial-visible", fmt.Sprintf("after a kill at %s#%d the file %s that a later run picks up does not parse: %v (%d bytes)", p.name, p.j, f, err, len(b)), detail)
			} else if normFailFile(b) != refNorm {
				res.violate(sc, "c16/explicit-incomplete-visible", fmt.Sprintf("after a kill at %s#%d the picked-up file %s is neither what it was before the run nor a complete save (%d bytes)", p.name, p.j, f, len(b)), detail)
			}
		}
		seen := false
		for _, f := range final {
			b, _ := os.ReadFile(f)
			if filepath.Clean(f) == filepath.Clean(expl) {
				seen = true
			}
			check(f, b)
		}
		if !seen {
			if b, err := os.ReadFile(expl); err == nil {
				check(expl, b)
			} else if planted {
				res.violate(sc, "c16/explicit-lost", fmt.Sprintf("after a kill at %s#%d the file named by -rapid.failfile is gone", p.name, p.j), detail)
			}
		}
		os.Chdir(wd)
		os.RemoveAll(dir)
	}
}

func c16ExistingPath(sc Scenario) string {
	if sc.X["existing"] == "flag-elsewhere" {
		return filepath.Join("saved", "case.fail") // kept outside the test's own directory (an issue tracker attachment, say)
	}
	san := sanitize(sc.S)
	return filepath.Join("testdata", "rapid", san, san+"-20200101000000-1.fail")
}

// c16Existing: the failing run starts with a complete, usable fail file of an earlier run in place (found by the glob
// or named with -rapid.failfile) whose recorded output differs from what the test logs now; the failure is reproduced
// from it.  Whatever the library does then (the unchanged tree: nothing), that file is a picked-up name: never opened
// for writing, and at every crash point it holds what it held before or a complete file with the same test case.
func c16Existing(sc Scenario, res *Result, base string) {
	name := sc.S
	wd, _ := os.Getwd()
	expl := c16ExistingPath(sc)
	// run 1 (an earlier run of the test, logging other text) leaves the fail file that run 2 starts with
	sc1 := sc
	sc1.X = map[string]string{"logtag": "first run"}
	firstDir := filepath.Join(base, "first")
	if _, _, err := runChild(sc1, firstDir, ""); err != nil {
		res.inconclusive("first run failed: " + err.Error())
		return
	}
	os.Chdir(firstDir)
	f1, _, _ := listFailDir(name)
	os.Chdir(wd)
	if len(f1) != 1 {
		res.inconclusive(fmt.Sprintf("first run left %d fail files", len(f1)))
		return
	}
	old, _ := os.ReadFile(filepath.Join(firstDir, f1[0]))
	_, _, oldWords, _, perr := readFailFile(filepath.Join(firstDir, f1[0]))
	if perr != nil {
		res.inconclusive("first run's fail file does not parse: " + perr.Error())
		return
	}
	plant := func(dir string) {
		os.MkdirAll(filepath.Join(dir, filepath.Dir(expl)), 0o775)
		if err := os.WriteFile(filepath.Join(dir, expl), old, 0o664); err != nil {
			panic(err)
		}
	}
	refDir := filepath.Join(base, "ref")
	plant(refDir)
	trace, _, err := runChild(sc, refDir, "")
	if err != nil || len(trace) == 0 {
		res.inconclusive(fmt.Sprintf("reference run failed: %v", err))
		return
	}
	_, saveTrace, points, sawEnd := c16SaveTrace(trace)
	if !sawEnd {
		res.inconclusive("markers not found in the reference trace")
		return
	}
	res.inc("scenarios_traced")
	res.inc("existing_scenarios:" + sc.X["existing"])
	res.nontrivial(fmt.Sprintf("existing/%x/%s", sc.Seed, sc.X["existing"]))
	// the run must have reproduced from the file (else it saved a second one, and the scenario says nothing)
	os.Chdir(refDir)
	fref, _, _ := listFailDir(name)
	os.Chdir(wd)
	elsewhere := sc.X["existing"] == "flag-elsewhere"
	if (!elsewhere && len(fref) != 1) || (elsewhere && len(fref) > 1) {
		res.inconclusive(fmt.Sprintf("the failure was not reproduced from the existing fail file (%d fail files after the run)", len(fref)))
		return
	}
	san := sanitize(name)
	c16TraceOracle(sc, res, saveTrace, san, "/existing")
	judge := func(dir, what string, detail map[string]any) {
		os.Chdir(dir)
		defer os.Chdir(wd)
		final, temps, _ := listFailDir(name)
		detail["final_files"], detail["temp_files"] = final, temps
		seen := false
		for _, f := range final {
			b, _ := os.ReadFile(f)
			if filepath.Clean(f) == filepath.Clean(expl) {
				seen = true
				if bytes.Equal(b, old) {
					res.inc("existing_file_untouched")
					continue
				}
			}
			if _, _, w, _, err := readFailFile(f); err != nil {
				res.violate(sc, "c16/existing-partial-visible", fmt.Sprintf("%s: the picked-up file %s does not parse: %v (%d bytes)", what, f, err, len(b)), detail)
			} else if !wordsEqual(w, oldWords) && len(w) != len(oldWords) {
				res.violate(sc, "c16/existing-incomplete-visible", fmt.Sprintf("%s: the picked-up file %s holds %d words, the test case has %d", what, f, len(w), len(oldWords)), detail)
			} else if n := strings.Count(string(b), "\n# ") + 1; sc.N > 0 && n < sc.N && !bytes.Equal(b, old) {
				res.violate(sc, "c16/existing-incomplete-visible", fmt.Sprintf("%s: the picked-up file %s was rewritten with %d of %d output lines", what, f, n, sc.N), detail)
			}
		}
		if !seen {
			if b, err := os.ReadFile(expl); err != nil || !bytes.Equal(b, old) {
				if _, _, w, _, perr := readFailFile(expl); err != nil || perr != nil || !wordsEqual(w, oldWords) {
					res.violate(sc, "c16/existing-lost", what+": the fail file the run reproduced from is gone or no longer complete", detail)
				}
			} else {
				res.inc("existing_file_untouched")
			}
		}
	}
	judge(refDir, "uninterrupted run", map[string]any{"trace": traceStr(saveTrace, 40)})
	res.count("save_syscalls", int64(len(points)))
	for pi, p := range points {
		dir := filepath.Join(base, fmt.Sprintf("e%03d", pi))
		plant(dir)
		_, killed, err := runChild(sc, dir, fmt.Sprintf("%s:signal=KILL:when=%d", p.name, p.j))
		res.inc("crash_runs")
		res.inc("existing_crash_runs")
		if err != nil || !killed {
			res.inc("crash_point_not_reached")
			os.RemoveAll(dir)
			continue
		}
		res.inc("killed_at:" + p.name)
		judge(dir, fmt.Sprintf("after a kill at %s#%d", p.name, p.j), map[string]any{"crash_point": fmt.Sprintf("%s #%d %s", p.name, p.j, p.args), "save_trace": traceStr(saveTrace, 60)})
		os.RemoveAll(dir)
	}
}
