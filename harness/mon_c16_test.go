package harness

func childMain(mode string) int { return 2 }
