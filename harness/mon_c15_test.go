package harness

// C15 — a generator can be shared by concurrently running checks.
// Runs under the race detector.  Each round builds a fresh generator tree (so
// that every lazy initialisation is still ahead), releases 8-16 concurrent
// Checks on it from a barrier and compares every check's draws with the same
// check run alone.

import (
	"fmt"
	"runtime"
	"strings"
	"sync"
	"sync/atomic"
	"testing"

	"pgregory.net/rapid"
)

func init() {
	monitors["C15"] = &monitor{scenarios: c15Scenarios, run: c15Run, finish: c15Finish}
}

func c15Scenarios(cfg runCfg) []Scenario {
	var out []Scenario
	n := cfg.n(480, 25)
	for i := 0; i < n; i++ {
		if cfg.mine(i) {
			out = append(out, Scenario{Family: "round", Seed: mix(cfg.seed, 15, uint64(i)), N: 8 + int(mix(cfg.seed, 1515, uint64(i))%9)})
		}
	}
	for i := 0; i < cfg.n(32, 25); i++ {
		if cfg.mine(i) {
			out = append(out, Scenario{Family: "failing-together", Seed: mix(cfg.seed, 15, 78, uint64(i)), N: 3 + int(mix(cfg.seed, 1517, uint64(i))%5)})
		}
	}
	for i := 0; i < cfg.n(64, 25); i++ {
		if cfg.mine(i) {
			out = append(out, Scenario{Family: "fuzz-target", Seed: mix(cfg.seed, 15, 77, uint64(i)), N: 6 + int(mix(cfg.seed, 1516, uint64(i))%10)})
		}
	}
	return out
}

type c15tree struct {
	buildInside bool   // every test case builds a generator on the shared one and draws from it
	inlineExpr  string // if set: generators for this expression are constructed inside the property, too
	gx          *GX
	gen         *rapid.Generator[any]
	ctors       *atomic.Int64
}

// c15Build builds the round's tree: a random expression biased to lazily initialised nodes, wrapped in a
// Deferred whose constructor is counted.
func c15Build(seed uint64) c15tree {
	r := newRng(seed, 0xc15)
	gxSalt = fmt.Sprintf("r%x", seed&0xffffff)
	defer func() { gxSalt = "" }()
	var gx *GX
	switch {
	case seed%7 == 3:
		// one of many Make types with nested pointers (resolved on first draw): with 20 of them most rounds of this
		// family are the first use of their type in this process
		gx = mkFresh[(seed/7)%uint64(len(mkFresh))]()
	case seed%7 == 5, seed%7 == 1:
		gx = c15DeepCustom(r)
	}
	for tries := 0; gx == nil; tries++ {
		gx = buildGX(r, gxOpts{depth: 3})
		d := gx.Desc
		lazy := strings.Contains(d, "Deferred") || strings.Contains(d, "RecTree") || strings.Contains(d, "Matching") || strings.Contains(d, "Custom") || strings.Contains(d, "Make[") || strings.Contains(d, "Filter")
		if lazy || tries > 20 {
			break
		}
	}
	ctors := &atomic.Int64{}
	inner := gx.Gen
	gen := rapid.Deferred(func() *rapid.Generator[any] {
		ctors.Add(1)
		return inner
	})
	tr := c15tree{gx: gx, gen: gen, ctors: ctors, buildInside: seed%3 == 1}
	if seed%7 == 2 || seed%7 == 6 {
		tr.inlineExpr = fmt.Sprintf(`([a-c]|xy+|[0-9]{1,3}z?){1,4}(?:r%x)?`, seed&0xffffff) // unique text per round, equal for the fresh twin
	}
	return tr
}

// c15DeepCustom is a chain of 30 nested Custom generators: every draw is 30 generator calls deep, so 8-16
// concurrent checks keep a few hundred Custom calls of the SAME generators in flight at once.
func c15DeepCustom(r *rng) *GX {
	leafDesc := "IntRange(0, 1000)"
	// ONE Custom generator that re-enters itself (a linked list, continued with probability 0.93: mean depth 14)
	var node *rapid.Generator[any]
	node = rapid.Custom(func(t *rapid.T) any {
		v := rapid.IntRange(0, 1000).Draw(t, "v")
		if rapid.IntRange(0, 99).Draw(t, "more") < 93 {
			if next, ok := node.Draw(t, "next").(int); ok {
				return (v + next) % 1001
			}
		}
		return v
	})
	gen := node
	for d := 0; d < 3; d++ {
		inner := gen
		gen = rapid.Custom(func(t *rapid.T) any { return inner.Draw(t, "d") })
	}
	desc := "Custom^3(recursive Custom list of " + leafDesc + ")"
	return &GX{Desc: desc, Gen: gen, Check: func(v any) string {
		if n, ok := v.(int); !ok || n < 0 || n > 1000 {
			return fmt.Sprintf("%s returned %v", desc, v)
		}
		return ""
	}}
}

func c15Prop(tr c15tree, mode int, prefix int, log *[]string, bad *string) func(t *rapid.T) {
	p, _ := c15PropSub(tr, mode, prefix, log, bad)
	return p
}

func c15PropSub(tr c15tree, mode int, prefix int, log *[]string, bad *string) (func(t *rapid.T), *rapid.Generator[[]any]) {
	sub := rapid.SliceOfN(tr.gen, 1, 2)
	return func(t *rapid.T) {
		if tr.inlineExpr != "" {
			// every test case of every check builds its own generator for one and the same expression text: building
			// a generator (process-wide caches behind it) while others draw from theirs is part of "shared by checks"
			v := rapid.StringMatching(tr.inlineExpr).Draw(t, "inline")
			*log = append(*log, canon(v))
			w := rapid.SliceOfBytesMatching(tr.inlineExpr).Draw(t, "inline-bytes")
			*log = append(*log, canon(w))
		}
		// a different number of throw-away draws per check: with the same -rapid.seed the checks then take
		// different paths through the shared tree at the same time
		for i := 0; i < prefix; i++ {
			rapid.Uint8().Draw(t, "prefix")
		}
		for i := 0; i < 3; i++ {
			var v any
			if tr.buildInside && i == 1 {
				// generators BUILT on the shared one by every test case of every check (Map, Filter, OneOf, Ptr, SliceOfN,
				// Custom), while other checks are in their first use of it
				var built *rapid.Generator[any]
				switch prefix % 5 {
				case 0:
					built = rapid.Map(tr.gen, func(x any) any { return x })
				case 1:
					built = tr.gen.Filter(func(any) bool { return true })
				case 2:
					built = rapid.OneOf(tr.gen, tr.gen)
				case 3:
					built = rapid.Map(rapid.SliceOfN(tr.gen, 1, 1), func(s []any) any { return s[0] })
				default:
					built = rapid.Custom(func(ct *rapid.T) any { return tr.gen.Draw(ct, "c") })
				}
				v = built.Draw(t, "built")
				*log = append(*log, canon(v))
				if c := tr.gx.Check(v); c != "" && *bad == "" {
					*bad = c
				}
				continue
			}
			if mode == 2 && i == 0 {
				s := sub.Draw(t, "s") // the shared tree used as a sub-generator
				*log = append(*log, canon(s))
				for _, e := range s {
					if c := tr.gx.Check(e); c != "" && *bad == "" {
						*bad = c
					}
				}
				continue
			}
			v = tr.gen.Draw(t, "v")
			*log = append(*log, canon(v))
			if c := tr.gx.Check(v); c != "" && *bad == "" {
				*bad = c
			}
		}
	}, sub
}

// c15FuzzTarget: ONE function returned by MakeFuzz (one property over one shared generator tree) is called from
// G parallel sub-tests at once, each with its own input; every call must draw what a replay of its own input draws.
func c15FuzzTarget(t *testing.T, sc Scenario, res *Result) {
	tr := c15Build(sc.Seed)
	fresh := c15Build(sc.Seed)
	G := sc.N
	slots := map[uint64]int{}
	logs := make([][]string, G)
	var cur *[][]string
	mk := func(tr c15tree) func(rt *rapid.T) {
		return func(rt *rapid.T) {
			id := rapid.Uint64().Draw(rt, "id")
			slot, ok := slots[id]
			var lg []string
			for i := 0; i < int(id%5); i++ {
				rapid.Uint8().Draw(rt, "prefix")
				runtime.Gosched()
			}
			for i := 0; i < 3; i++ {
				lg = append(lg, canon(tr.gen.Draw(rt, "v")))
				runtime.Gosched()
			}
			if ok && cur != nil {
				(*cur)[slot] = lg
			}
		}
	}
	// inputs and reference draws: recordings made alone, on the fresh twin of the tree
	refProp := mk(fresh)
	var inputs [][]byte
	var kinds []string
	refs := make([][]string, G)
	for g, try := 0, uint64(0); g < G; try++ {
		if try > 200 {
			res.inconclusive("no distinct ids found")
			return
		}
		vs, out := rapid.VerifRecord(mix(sc.Seed, 0xf2, try)%1000003+1, refProp)
		// the id is the first draw of the recording: replay it to read it
		var first uint64
		rapid.VerifReplay(vs.Data, func(rt *rapid.T) { first = rapid.Uint64().Draw(rt, "id") })
		if _, dup := slots[first]; dup {
			continue // (biased integers collide now and then: take the next seed)
		}
		slots[first] = g
		inputs = append(inputs, wordsToBytes(vs.Data))
		kinds = append(kinds, out.Kind)
		g++
	}
	cur = &refs
	for g := 0; g < G; g++ {
		rapid.VerifReplay(bytesToWords(inputs[g]), refProp)
	}
	cur = &logs
	fz := rapid.MakeFuzz(mk(tr))
	status := make([]string, G)
	t.Run("grp", func(gt *testing.T) {
		for g := 0; g < G; g++ {
			g := g
			gt.Run("f", func(st *testing.T) {
				st.Parallel()
				defer func() {
					switch {
					case st.Failed():
						status[g] = "failed"
					case st.Skipped():
						status[g] = "invalid"
					default:
						status[g] = "ok"
					}
				}()
				fz(st, inputs[g])
			})
		}
	})
	res.inc("rounds")
	res.inc("fuzz_target_rounds")
	res.count("concurrent_checks", int64(G))
	res.nontrivial("fuzz-target/" + tr.gx.Desc)
	for g := 0; g < G; g++ {
		res.count("draws_compared", int64(len(logs[g])))
		if status[g] != kinds[g] {
			res.violate(sc, "c15/fuzz-target-status", fmt.Sprintf("call %d of a fuzz target running %d calls at once ended %q, its input alone ends %q", g, G, status[g], kinds[g]), map[string]any{"expr": tr.gx.Desc})
			continue
		}
		if strings.Join(logs[g], "|") != strings.Join(refs[g], "|") {
			res.violate(sc, "c15/fuzz-target-draws", fmt.Sprintf("call %d of a fuzz target running %d calls at once drew other values than a replay of its own input (%d words)", g, G, len(inputs[g])/8), map[string]any{"expr": tr.gx.Desc, "got": clipList(logs[g], 4), "want": clipList(refs[g], 4)})
		}
	}
}

// c15FailingTogether: G checks that FAIL (each for a threshold of its own) run at once over one shared generator, all
// on test objects with the same name (parallel checks of one test function); every check - search, reproduction,
// every minimisation attempt, final replay - draws exactly what it draws when it runs alone.
func c15FailingTogether(t *testing.T, sc Scenario, res *Result) {
	r := newRng(sc.Seed, 0xfa11)
	G := sc.N
	shared := rapid.SliceOfN(rapid.IntRange(0, 1<<20), 2, 4)
	other := rapid.Custom(func(t *rapid.T) int { return rapid.IntRange(0, 50).Draw(t, "o") * 2 })
	thr := make([]int, G)
	for g := range thr {
		thr[g] = r.between(1, 1<<19)
	}
	setFlags(map[string]string{"rapid.seed": fmt.Sprint(sc.Seed%100003 + 1), "rapid.checks": "300", "rapid.nofailfile": "true", "rapid.shrinktime": "60s"})
	prop := func(g int, log *[]string) func(t *rapid.T) {
		return func(t *rapid.T) {
			v := shared.Draw(t, "v")
			o := other.Draw(t, "o")
			*log = append(*log, fmt.Sprint(v, o))
			if v[0]+v[1] >= thr[g] {
				t.Fatalf("sum reaches the threshold %d", thr[g])
			}
		}
	}
	logs := make([][]string, G)
	tbs := make([]*recTB, G)
	var wg sync.WaitGroup
	start := make(chan struct{})
	for g := 0; g < G; g++ {
		tbs[g] = newTB("C15_same_name")
		wg.Add(1)
		go func(g int) {
			defer wg.Done()
			<-start
			rapid.Check(tbs[g], prop(g, &logs[g]))
		}(g)
	}
	close(start)
	wg.Wait()
	res.inc("rounds")
	res.inc("failing_together_rounds")
	res.count("concurrent_checks", int64(G))
	res.nontrivial(fmt.Sprintf("failing-together/%x", sc.Seed))
	for g := 0; g < G; g++ {
		var solo []string
		tb := newTB("C15_same_name")
		runCheck(tb, prop(g, &solo))
		res.count("draws_compared", int64(len(solo)))
		a, b := parseReport(tbs[g]), parseReport(tb)
		if a.Kind != b.Kind || a.M != b.M || a.N != b.N {
			res.violate(sc, "c15/failing-together-report", fmt.Sprintf("check %d of %d failing checks run at once reports %q, alone it reports %q", g, G, clip(a.Raw, 120), clip(b.Raw, 120)), nil)
			continue
		}
		if strings.Join(logs[g], "|") != strings.Join(solo, "|") {
			d := 0
			for d < len(logs[g]) && d < len(solo) && logs[g][d] == solo[d] {
				d++
			}
			last := func(l []string) string {
				if len(l) == 0 {
					return ""
				}
				return l[len(l)-1]
			}
			res.violate(sc, "c15/failing-together-draws", fmt.Sprintf("check %d of %d failing checks run at once (threshold %d) executed other test cases than the same check alone: %d vs %d invocations, first difference at #%d; final test case %s vs %s", g, G, thr[g], len(logs[g]), len(solo), d, last(logs[g]), last(solo)), nil)
		}
	}
}

func c15Run(t *testing.T, sc Scenario, res *Result) {
	if sc.Family == "failing-together" {
		c15FailingTogether(t, sc, res)
		return
	}
	if sc.Family == "fuzz-target" {
		c15FuzzTarget(t, sc, res)
		return
	}
	tr := c15Build(sc.Seed)
	G := sc.N
	setFlags(map[string]string{"rapid.seed": fmt.Sprint(sc.Seed%100003 + 1), "rapid.checks": "15", "rapid.nofailfile": "true", "rapid.shrinktime": "0s"})
	logs := make([][]string, G)
	bads := make([]string, G)
	modes := make([]int, G)
	tbs := make([]*recTB, G)
	subs := make([]*rapid.Generator[[]any], G)
	var wg sync.WaitGroup
	start := make(chan struct{})
	for g := 0; g < G; g++ {
		modes[g] = int(mix(sc.Seed, uint64(g)) % 3) // 0 draw first, 1 String() first, 2 sub-generator first
		tbs[g] = newTB(fmt.Sprintf("C15_%d", g))
		wg.Add(1)
		go func(g int) {
			defer wg.Done()
			prop, sub := c15PropSub(tr, modes[g], g%5, &logs[g], &bads[g])
			subs[g] = sub
			<-start
			if modes[g] == 1 {
				_ = tr.gen.String()
				_ = tr.gx.Gen.String()
			}
			if g%4 == 3 {
				_ = sub.String() // a generator built on the shared one is described while others describe / draw from the shared one
			}
			rapid.Check(tbs[g], prop)
		}(g)
	}
	var neighbour *recTB
	if sc.Seed%7 == 1 {
		// a neighbour whose OWN property fails legitimately, by non-fatal failures signalled inside a Custom generator
		// function (on that call's T), while the other checks keep hundreds of Custom calls in flight: nothing of
		// its failures may show up in them
		neighbour = newTB("C15_neighbour")
		ncalls := 0
		failing := rapid.Custom(func(t *rapid.T) int {
			v := rapid.IntRange(0, 1000).Draw(t, "n")
			ncalls++
			if v%3 == 0 || ncalls >= 12 { // (with a fixed seed all six Checks see the same 15 cases: make sure one of them signals)
				t.Errorf("the neighbour's own failure (%d)", v)
			}
			return v
		})
		wg.Add(1)
		go func() {
			defer wg.Done()
			<-start
			for i := 0; i < 6 && !neighbour.Failed(); i++ {
				rapid.Check(neighbour, func(t *rapid.T) {
					tr.gen.Draw(t, "shared")
					failing.Draw(t, "failing")
				})
			}
		}()
		res.inc("rounds_with_a_failing_neighbour")
	}
	close(start)
	wg.Wait()
	if neighbour != nil && !neighbour.Failed() {
		res.violate(sc, "c15/neighbour", "the neighbouring check, whose Custom generator function signals failures, did not fail", nil)
	}
	res.inc("rounds")
	res.count("concurrent_checks", int64(G))
	res.nontrivial(tr.gx.Desc)
	countCtors(res, "Deferred("+tr.gx.Desc)
	// the same check alone: on the same (now warm) tree and on a freshly built equal tree
	solo := func(tr c15tree, mode int, prefix int) ([]string, string) {
		var lg []string
		var bad string
		tb := newTB("C15solo")
		runCheck(tb, c15Prop(tr, mode, prefix, &lg, &bad))
		return lg, bad
	}
	fresh := c15Build(sc.Seed)
	// a generator is an immutable specification: its description - and that of every generator built on it - is the
	// same whoever asked for it first, and whenever
	wantSub, wantGen, wantInner := rapid.SliceOfN(fresh.gen, 1, 2).String(), fresh.gen.String(), fresh.gx.Gen.String()
	if got := tr.gen.String(); got != wantGen || tr.gx.Gen.String() != wantInner {
		res.violate(sc, "c15/description", fmt.Sprintf("the shared generator describes itself as %q after concurrent use, a freshly built equal one as %q", clip(got, 200), clip(wantGen, 200)), map[string]any{"expr": tr.gx.Desc})
	}
	for g := 0; g < G; g++ {
		if got := subs[g].String(); got != wantSub {
			res.violate(sc, "c15/description", fmt.Sprintf("a generator built on the shared one by check %d describes itself as %q, built on a fresh equal tree as %q", g, clip(got, 200), clip(wantSub, 200)), map[string]any{"expr": tr.gx.Desc})
			break
		}
	}
	res.count("descriptions_compared", int64(G+2))
	refs := map[int][2][]string{}
	for _, mp := range []int{0, 2, 10, 12, 20, 22, 30, 32, 40, 42} {
		m, pf := mp%10, mp/10
		a, _ := solo(tr, m, pf)
		b, _ := solo(fresh, m, pf)
		refs[mp] = [2][]string{a, b}
		if strings.Join(a, "|") != strings.Join(b, "|") {
			res.violate(sc, "c15/warm-vs-fresh", "a check run alone draws different values on the used tree than on a freshly built equal tree", map[string]any{"expr": tr.gx.Desc})
		}
	}
	for g := 0; g < G; g++ {
		m := modes[g]
		if m == 1 {
			m = 0
		}
		m += 10 * (g % 5)
		res.count("draws_compared", int64(len(logs[g])))
		if bads[g] != "" {
			res.violate(sc, "c15/contract", "out-of-contract value under concurrent use: "+bads[g], map[string]any{"expr": tr.gx.Desc})
		}
		if rp := parseReport(tbs[g]); rp.Kind == "only" {
			res.inc("unsatisfiable_expression_checks")
			continue
		}
		if tbs[g].Failed() {
			res.violate(sc, "c15/failed", "a never-failing concurrent check failed: "+clip(parseReport(tbs[g]).Raw, 300), map[string]any{"expr": tr.gx.Desc})
			continue
		}
		if strings.Join(logs[g], "|") != strings.Join(refs[m][0], "|") {
			d := 0
			for d < len(logs[g]) && d < len(refs[m][0]) && logs[g][d] == refs[m][0][d] {
				d++
			}
			res.violate(sc, "c15/draws-differ", fmt.Sprintf("concurrent check %d (mode %d) drew other values than the same check run alone (first difference at draw %d of %d)", g, modes[g], d, len(refs[m][0])),
				map[string]any{"expr": tr.gx.Desc, "goroutines": G})
		}
	}
	if n := tr.ctors.Load(); n > 1 {
		res.violate(sc, "c15/deferred-ctor", fmt.Sprintf("Deferred's constructor function ran %d times for one generator", n), map[string]any{"expr": tr.gx.Desc})
	}
	if res.wantSample() && mix(sc.Seed)%8 == 0 {
		res.sample(map[string]any{"expr": tr.gx.Desc, "concurrent_checks": G, "modes(0 draw,1 String first,2 sub-generator)": modes, "draws_per_check": len(logs[0])})
	}
}

func c15Finish(cfg runCfg, res *Result) {
	if cfg.shard == 0 {
		res.count("canary_race_reports", int64(raceCanary()))
	}
}
