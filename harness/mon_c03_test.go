package harness

// C03 — generated values satisfy the generator's contract for every bitstream.
//
// Events: every value returned by Draw inside a property driven (a) through
// MakeFuzz by hostile byte strings and (b) by the PRNG through Check/Example;
// status of each fuzz sub-test.
// Oracle: the per-node contract checkers of genx; a fuzz sub-test that fails
// (the property itself never fails) is an internal assertion / runtime panic.

import (
	"encoding/binary"
	"fmt"
	"regexp"
	"strings"
	"testing"
	"time"

	"pgregory.net/rapid"
)

func init() {
	monitors["C03"] = &monitor{scenarios: c03Scenarios, run: c03Run, scenarioLimit: 240 * time.Second}
}

func c03Scenarios(cfg runCfg) []Scenario {
	var out []Scenario
	nexpr := cfg.n(3200, 40)
	for i := 0; i < nexpr; i++ {
		if !cfg.mine(i) {
			continue
		}
		out = append(out, Scenario{Family: "fuzz", Seed: mix(cfg.seed, 3, uint64(i)), N: 400})
		out = append(out, Scenario{Family: "prng", Seed: mix(cfg.seed, 3, uint64(i)), N: 100})
	}
	out = append(out, Scenario{Family: "make-scopes", Seed: mix(cfg.seed, 3, 77, uint64(cfg.shard))})
	for i := 0; i < cfg.n(48, 10); i++ {
		if cfg.mine(i) {
			out = append(out, Scenario{Family: "long", Seed: mix(cfg.seed, 3, 79, uint64(i)), N: 12, K: i})
		}
	}
	for i := 0; i < cfg.n(16, 10); i++ {
		if cfg.mine(i) {
			out = append(out, Scenario{Family: "unsat", Seed: mix(cfg.seed, 3, 78, uint64(i)), N: 100})
		}
	}
	return out
}

var wordPatterns = 12

func hostileWord(r *rng, pat int) uint64 {
	switch pat {
	case 0:
		return 0
	case 1:
		return ^uint64(0)
	case 2:
		return uint64(1) << uint(r.intn(64))
	case 3:
		return uint64(1)<<uint(r.intn(64)) - 1
	case 4:
		return uint64(r.intn(8))
	case 5:
		return r.next()
	case 6:
		return r.next() >> uint(r.intn(64))
	case 7:
		return ^(r.next() >> uint(r.intn(64)))
	case 8:
		return uint64(1)<<53 - 1 - uint64(r.intn(3)) // float01 just below 1: coins say "continue"
	case 9:
		return uint64(1)<<uint(r.intn(64)) + uint64(r.intn(3)) - 1
	case 10:
		return uint64(r.intn(70))
	default:
		return r.next() | 1<<63
	}
}

// hostileBytes builds one fuzz input: nWords words following a per-input mix
// of patterns, sometimes truncated at an arbitrary byte offset.
func hostileBytes(r *rng, maxWords int) []byte {
	n := r.intn(maxWords + 1)
	if r.chance(1, 10) {
		n = r.intn(4)
	}
	mode := r.intn(wordPatterns + 3)
	buf := make([]byte, 0, 8*n+8)
	for i := 0; i < n; i++ {
		pat := mode
		if mode >= wordPatterns {
			pat = r.intn(wordPatterns) // mixed
		} else if r.chance(1, 5) {
			pat = r.intn(wordPatterns)
		}
		buf = binary.LittleEndian.AppendUint64(buf, hostileWord(r, pat))
	}
	if r.chance(1, 4) && len(buf) > 0 {
		buf = buf[:r.intn(len(buf)+1)]
	}
	return buf
}

func bytesToWords(b []byte) []uint64 {
	var out []uint64
	for len(b) > 0 {
		var tmp [8]byte
		n := copy(tmp[:], b)
		out = append(out, binary.LittleEndian.Uint64(tmp[:]))
		b = b[n:]
	}
	return out
}

var ctorRe = regexp.MustCompile(`[A-Z][A-Za-z0-9]*[\(\[]`)

func countCtors(res *Result, desc string) {
	for _, m := range ctorRe.FindAllString(desc, -1) {
		res.inc("ctor:" + strings.TrimRight(m, "(["))
	}
}

// c03Unsat: generators whose contract no bitstream can meet; every draw has to end as invalid data.
func c03Unsat(r *rng) (string, *rapid.Generator[any]) {
	switch r.intn(9) {
	case 0:
		return "StringMatching(no-match class)", rapid.StringMatching(`[^\x00-\x{10FFFF}]`).AsAny()
	case 1:
		return "StringMatching(a\\bb)", rapid.StringMatching(`a\bb`).AsAny()
	case 2:
		return "SliceOfBytesMatching(x[^\\x00-\\x{10FFFF}]+)", rapid.SliceOfBytesMatching(`x[^\x00-\x{10FFFF}]+`).AsAny()
	case 3:
		return "SliceOfNDistinct(Bool,3,3)", rapid.SliceOfNDistinct(rapid.Bool(), 3, 3, rapid.ID[bool]).AsAny()
	case 4:
		return "MapOfN(IntRange(0,1),Int,3,-1)", rapid.MapOfN(rapid.IntRange(0, 1), rapid.Int(), 3, -1).AsAny()
	case 5:
		return "Int.Filter(false)", rapid.Int().Filter(func(int) bool { return false }).AsAny()
	case 6:
		return "MapOfNValues(Int8,5,5,sign)", rapid.MapOfNValues(rapid.Int8(), 5, 5, func(v int8) bool { return v < 0 }).AsAny()
	case 7:
		return "SliceOfN(Int.Filter(false),1,-1)", rapid.SliceOfN(rapid.Int().Filter(func(int) bool { return false }), 1, -1).AsAny()
	default:
		return "Custom(always Skip)", rapid.Custom(func(t *rapid.T) int { t.Skip("never"); return 0 }).AsAny()
	}
}

func c03RunUnsat(t *testing.T, sc Scenario, res *Result) {
	r := newRng(sc.Seed, 0x0503)
	desc, g := c03Unsat(r)
	var got []string
	drawBefore := r.chance(1, 2)
	prop := func(rt *rapid.T) {
		if drawBefore {
			rapid.Uint8().Draw(rt, "before")
		}
		v := g.Draw(rt, "v")
		got = append(got, clip(canon(v), 100))
	}
	fz := rapid.MakeFuzz(prop)
	fr := newRng(sc.Seed, 78)
	for i := 0; i < sc.N; i++ {
		in := hostileBytes(fr, 120)
		got = got[:0]
		var st *testing.T
		t.Run("f", func(s *testing.T) {
			st = s
			fz(s, in)
		})
		res.inc("unsat_cases")
		res.inc("ctor:unsat:" + desc)
		res.nontrivial(desc + "\x00" + wordsStr(bytesToWords(in)))
		switch {
		case len(got) > 0:
			res.violate(sc, "c03/unsat/"+desc, fmt.Sprintf("%s cannot be satisfied by any bitstream but returned %s", desc, got[0]), map[string]any{"expr": desc, "input_words": wordsStr(bytesToWords(in))})
		case st.Failed():
			out := rapid.VerifReplay(bytesToWords(in), prop)
			res.violate(sc, "c03/unsat-fail/"+desc, fmt.Sprintf("%s: the draw was not rejected as invalid data but failed the test: %s: %s", desc, out.Kind, clip(out.Msg, 300)), map[string]any{"expr": desc, "input_words": wordsStr(bytesToWords(in))})
		case st.Skipped():
			res.inc("unsat_rejected_as_invalid")
		default:
			res.violate(sc, "c03/unsat-pass/"+desc, desc+": the test case passed although its draw can never succeed", map[string]any{"expr": desc, "input_words": wordsStr(bytesToWords(in))})
		}
	}
	// through Check: nothing but invalid cases
	setFlags(map[string]string{"rapid.seed": fmt.Sprint(sc.Seed | 1), "rapid.checks": "20", "rapid.nofailfile": "true"})
	tb := newTB("C03u")
	got = got[:0]
	runCheck(tb, prop)
	errs := tb.errors()
	if len(got) > 0 || tb.escaped != nil || len(errs) != 1 || !strings.Contains(errs[0], "only generated 0 valid tests") {
		res.violate(sc, "c03/unsat-check/"+desc, fmt.Sprintf("%s under Check: values %v, escaped %v, errors %v (expected only 'only generated 0 valid tests')", desc, got, tb.escaped, errs), map[string]any{"expr": desc})
	}
	res.inc("unsat_checks")
}

func c03Run(t *testing.T, sc Scenario, res *Result) {
	if sc.Family == "unsat" {
		c03RunUnsat(t, sc, res)
		return
	}
	if sc.Family == "long" {
		c03RunLong(t, sc, res)
		return
	}
	if sc.Family == "make-scopes" {
		// same-named types from different scopes, used one after the other in one process
		for i, gx := range []*GX{mkLocalA(), mkLocalB(), mkLocalA()} {
			for s := 0; s < 5; s++ {
				v, ok := safeExampleVal(gx, int(sc.Seed%1000)+s)
				res.inc("values_checked")
				if !ok {
					res.violate(sc, "c03/make-scope", fmt.Sprintf("%s (use %d) panicked: %v", gx.Desc, i, v), nil)
				} else if c := gx.Check(v); c != "" {
					res.violate(sc, "c03/make-scope", "out-of-contract value: "+c, nil)
				}
			}
		}
		res.inc("make_scope_rounds")
		return
	}
	r := newRng(sc.Seed)
	depth := r.intn(4)
	gx := buildGX(r, gxOpts{depth: depth})
	ndraws := r.between(1, 3)
	countCtors(res, gx.Desc)

	var complaint string
	var returned int
	var lastVals []string
	prop := func(rt *rapid.T) {
		lastVals = lastVals[:0]
		var held []any
		defer func() {
			// values handed out earlier in the case must still be in contract when the case ends
			// (a generator must not keep writing into memory it already returned)
			for _, v := range held {
				if c := gx.Check(v); c != "" && complaint == "" {
					complaint = "a value returned earlier in the test case changed afterwards: " + c
				}
			}
		}()
		for i := 0; i < ndraws; i++ {
			v := gx.Gen.Draw(rt, "")
			held = append(held, v)
			returned++
			if c := gx.checkAll(v); c != "" && complaint == "" {
				complaint = c
			}
			if len(lastVals) < 3 {
				lastVals = append(lastVals, clip(canon(v), 120))
			}
			res.nontrivial(gx.Desc + "\x00" + canon(v))
		}
	}

	switch sc.Family {
	case "fuzz":
		fr := newRng(sc.Seed, 77)
		fz := rapid.MakeFuzz(prop)
		for i := 0; i < sc.N; i++ {
			in := hostileBytes(fr, 40+depth*60)
			complaint = ""
			before := returned
			var st *testing.T
			t.Run("f", func(s *testing.T) {
				st = s
				fz(s, in)
			})
			res.inc("fuzz_cases")
			switch {
			case st.Failed():
				res.inc("fuzz_failed")
				out := rapid.VerifReplay(bytesToWords(in), prop)
				res.violate(sc, "c03/fuzz-fail/"+gx.Desc, fmt.Sprintf("fuzz sub-test failed although the property never fails (internal assertion or runtime panic): %s: %s", out.Kind, clip(out.Msg, 300)),
					map[string]any{"expr": gx.Desc, "input_words": wordsStr(bytesToWords(in)), "input_len": len(in), "traceback": out.Traceback})
			case st.Skipped():
				res.inc("fuzz_skipped")
			default:
				res.inc("fuzz_passed")
			}
			res.count("values_checked", int64(returned-before))
			if complaint != "" {
				res.violate(sc, "c03/contract/"+gx.Desc, "out-of-contract value: "+complaint,
					map[string]any{"expr": gx.Desc, "input_words": wordsStr(bytesToWords(in)), "input_len": len(in), "driver": "MakeFuzz"})
			}
			if i == 0 && res.wantSample() && returned > before {
				res.sample(map[string]any{"driver": "MakeFuzz", "expr": gx.Desc, "input_words": wordsStr(bytesToWords(in)), "values": append([]string(nil), lastVals...)})
			}
		}
	case "prng":
		// (1) through Check with a fixed seed
		setFlags(map[string]string{"rapid.seed": fmt.Sprint(sc.Seed | 1), "rapid.checks": fmt.Sprint(sc.N), "rapid.nofailfile": "true"})
		tb := newTB("C03")
		complaint = ""
		before := returned
		runCheck(tb, prop)
		res.count("prng_cases", int64(sc.N))
		res.count("values_checked", int64(returned-before))
		if complaint != "" {
			res.violate(sc, "c03/contract/"+gx.Desc, "out-of-contract value: "+complaint, map[string]any{"expr": gx.Desc, "driver": "Check", "rapid.seed": sc.Seed | 1})
		}
		if tb.escaped != nil {
			res.violate(sc, "c03/escape/"+gx.Desc, fmt.Sprintf("panic escaped Check: %v", tb.escaped), map[string]any{"expr": gx.Desc, "stack": clip(tb.escStack, 2000)})
		}
		for _, e := range tb.errors() {
			if strings.Contains(e, "only generated") {
				res.inc("prng_unsatisfiable")
				continue
			}
			res.violate(sc, "c03/check-fail/"+gx.Desc, "Check failed although the property never fails: "+clip(e, 400), map[string]any{"expr": gx.Desc, "rapid.seed": sc.Seed | 1})
		}
		// (2) through Example(seed)
		for s := 0; s < 20; s++ {
			func() {
				defer func() {
					if p := recover(); p != nil {
						msg := fmt.Sprint(p)
						if strings.Contains(msg, "failed to generate an example") {
							res.inc("example_unsatisfiable")
							return
						}
						res.violate(sc, "c03/example-panic/"+gx.Desc, "Example panicked: "+clip(msg, 300), map[string]any{"expr": gx.Desc, "seed": s})
					}
				}()
				v := gx.Gen.Example(int(sc.Seed%1000) + s)
				res.inc("values_checked")
				res.inc("example_cases")
				if c := gx.checkAll(v); c != "" {
					res.violate(sc, "c03/contract/"+gx.Desc, "out-of-contract value: "+c, map[string]any{"expr": gx.Desc, "driver": "Example", "seed": int(sc.Seed%1000) + s})
				}
			}()
		}
	}
}

func safeExampleVal(gx *GX, seed int) (v any, ok bool) {
	defer func() {
		if p := recover(); p != nil {
			v, ok = p, false
		}
	}()
	return gx.Gen.Example(seed), true
}

type longGen struct {
	desc  string
	draw  func(rt *rapid.T) any
	check func(v any) string
}

// c03LongGens: generators of LONG values (67 ... several thousand bytes / elements), typed (not through AsAny), so that
// whatever the library does with a value on its way out (draw log, labels, copies) sees the real thing.
func c03LongGens() []longGen {
	bytesIn := func(desc string, lo, hi byte, mn, mx int) func(v any) string {
		return func(v any) string {
			b, ok := v.([]byte)
			if !ok {
				return fmt.Sprintf("%s returned %T", desc, v)
			}
			if len(b) < mn || len(b) > mx {
				return fmt.Sprintf("%s returned %d bytes", desc, len(b))
			}
			for i, c := range b {
				if c < lo || c > hi {
					return fmt.Sprintf("%s returned byte %#x at index %d of %d (allowed %#x..%#x): %q", desc, c, i, len(b), lo, hi, clip(string(b), 200))
				}
			}
			return ""
		}
	}
	reB := regexp.MustCompile(`^[a-c]{70,300}$`)
	reS := regexp.MustCompile(`^(ab|cd){40,90}x$`)
	return []longGen{
		{"SliceOfN(ByteRange('a','f'), 67, 200)", func(rt *rapid.T) any { return rapid.SliceOfN(rapid.ByteRange('a', 'f'), 67, 200).Draw(rt, "b") }, bytesIn("SliceOfN(ByteRange('a','f'), 67, 200)", 'a', 'f', 67, 200)},
		{"SliceOfN(ByteRange(0,3), 128, 5000)", func(rt *rapid.T) any { return rapid.SliceOfN(rapid.ByteRange(0, 3), 128, 5000).Draw(rt, "b") }, bytesIn("SliceOfN(ByteRange(0,3), 128, 5000)", 0, 3, 128, 5000)},
		{"SliceOfN(Uint8Range(200,255), 64, 70)", func(rt *rapid.T) any { return rapid.SliceOfN(rapid.Uint8Range(200, 255), 64, 70).Draw(rt, "b") }, bytesIn("SliceOfN(Uint8Range(200,255), 64, 70)", 200, 255, 64, 70)},
		{"SliceOfBytesMatching(`[a-c]{70,300}`)", func(rt *rapid.T) any { return rapid.SliceOfBytesMatching(`[a-c]{70,300}`).Draw(rt, "b") }, func(v any) string {
			b, ok := v.([]byte)
			if !ok || !reB.Match(b) {
				return fmt.Sprintf("SliceOfBytesMatching(`[a-c]{70,300}`) returned %q", clip(fmt.Sprint(v), 300))
			}
			return ""
		}},
		{"StringMatching(`(ab|cd){40,90}x`)", func(rt *rapid.T) any { return rapid.StringMatching(`(ab|cd){40,90}x`).Draw(rt, "s") }, func(v any) string {
			s, ok := v.(string)
			if !ok || !reS.MatchString(s) {
				return fmt.Sprintf("StringMatching(`(ab|cd){40,90}x`) returned %q", clip(fmt.Sprint(v), 300))
			}
			return ""
		}},
		{"StringOfN(RuneFrom([]rune(\"xyz\")), 100, 400, -1)", func(rt *rapid.T) any {
			return rapid.StringOfN(rapid.RuneFrom([]rune("xyz")), 100, 400, -1).Draw(rt, "s")
		}, func(v any) string {
			s, ok := v.(string)
			if !ok || len(s) < 100 || len(s) > 400 || strings.Trim(s, "xyz") != "" {
				return fmt.Sprintf("StringOfN(RuneFrom(xyz),100,400,-1) returned %q", clip(fmt.Sprint(v), 300))
			}
			return ""
		}},
		{"SliceOfN(Int16Range(-5,5), 80, 90)", func(rt *rapid.T) any { return rapid.SliceOfN(rapid.Int16Range(-5, 5), 80, 90).Draw(rt, "v") }, func(v any) string {
			s, ok := v.([]int16)
			if !ok || len(s) < 80 || len(s) > 90 {
				return fmt.Sprintf("SliceOfN(Int16Range(-5,5),80,90) returned %T of %d", v, len(s))
			}
			for _, e := range s {
				if e < -5 || e > 5 {
					return fmt.Sprintf("SliceOfN(Int16Range(-5,5),80,90) returned element %d", e)
				}
			}
			return ""
		}},
		{"MapOfN(IntRange(0,999), ByteRange(1,2), 70, 90)", func(rt *rapid.T) any {
			return rapid.MapOfN(rapid.IntRange(0, 999), rapid.ByteRange(1, 2), 70, 90).Draw(rt, "m")
		}, func(v any) string {
			m, ok := v.(map[int]byte)
			if !ok || len(m) < 70 || len(m) > 90 {
				return fmt.Sprintf("MapOfN(...,70,90) returned %T of %d", v, len(m))
			}
			for k, e := range m {
				if k < 0 || k > 999 || e < 1 || e > 2 {
					return fmt.Sprintf("MapOfN(...,70,90) returned entry %d:%d", k, e)
				}
			}
			return ""
		}},
	}
}

// c03RunLong drives the long-value generators with draw logging ON (MakeFuzz logs every draw to the TB; Check under
// -rapid.v; the final replay of a failing Check) and OFF, and checks every value when it is returned and again when the
// test case ends.
func c03RunLong(t *testing.T, sc Scenario, res *Result) {
	gens := c03LongGens()
	lg := gens[sc.K%len(gens)]
	r := newRng(sc.Seed, 0x10c3)
	var complaint string
	failAt := -1
	calls := 0
	prop := func(rt *rapid.T) {
		calls++
		var held []any
		defer func() {
			for _, v := range held {
				if c := lg.check(v); c != "" && complaint == "" {
					complaint = "a value returned earlier in the test case changed afterwards: " + c
				}
			}
		}()
		for i := 0; i < 2; i++ {
			v := lg.draw(rt)
			held = append(held, v)
			res.inc("values_checked")
			res.inc("long_values_checked")
			if c := lg.check(v); c != "" && complaint == "" {
				complaint = c
			}
		}
		if failAt >= 0 && calls > failAt {
			rt.Fatalf("the property fails so that the final replay (logging on) is exercised")
		}
	}
	report := func(driver string, extra map[string]any) {
		if complaint != "" {
			extra["expr"], extra["driver"] = lg.desc, driver
			res.violate(sc, "c03/contract/"+lg.desc, "out-of-contract value: "+complaint, extra)
			complaint = ""
		}
	}
	for i := 0; i < sc.N; i++ {
		seed := mix(sc.Seed, uint64(i))%1000003 + 1
		// (1) MakeFuzz on the words of a PRNG recording (every draw is logged to the TB)
		rec, _ := rapid.VerifRecord(seed, prop)
		report("VerifRecord (PRNG, quiet)", map[string]any{"seed": seed})
		in := wordsToBytes(rec.Data)
		var st *testing.T
		fz := rapid.MakeFuzz(prop)
		t.Run("f", func(s *testing.T) { st = s; fz(s, in) })
		res.inc("fuzz_cases")
		res.inc("long_fuzz_cases")
		if st.Failed() {
			res.violate(sc, "c03/fuzz-fail/"+lg.desc, "fuzz sub-test failed on the words of a recording although the property never fails", map[string]any{"expr": lg.desc, "seed": seed})
		} else if st.Skipped() {
			res.inc("fuzz_skipped")
		} else {
			res.inc("fuzz_passed")
		}
		report("MakeFuzz (draws logged)", map[string]any{"seed": seed, "input_len": len(in)})
	}
	// (2) Check, verbose and quiet
	for _, v := range []string{"true", "false"} {
		setFlags(map[string]string{"rapid.seed": fmt.Sprint(sc.Seed%1000003 + 1), "rapid.checks": "10", "rapid.nofailfile": "true", "rapid.v": v})
		tb := newTB("C03long")
		runCheck(tb, prop)
		res.count("prng_cases", 10)
		res.inc("long_checks:v=" + v)
		if tb.escaped != nil || len(tb.errors()) > 0 {
			res.violate(sc, "c03/check-fail/"+lg.desc, fmt.Sprintf("Check failed although the property never fails: escaped %v, errors %v", tb.escaped, clipList(tb.errors(), 2)), map[string]any{"expr": lg.desc})
		}
		report("Check -rapid.v="+v, map[string]any{})
	}
	// (3) a failing Check: reproduction, (cut) minimisation, final replay with the draws logged
	calls, failAt = 0, r.between(0, 5)
	setFlags(map[string]string{"rapid.seed": fmt.Sprint(sc.Seed%1000003 + 2), "rapid.checks": "10", "rapid.nofailfile": "true", "rapid.shrinktime": pick(r, []string{"0s", "30ms"})})
	tb := newTB("C03long")
	runCheck(tb, prop)
	res.count("prng_cases", 10)
	res.inc("long_failing_checks")
	if tb.escaped != nil {
		res.violate(sc, "c03/escape/"+lg.desc, fmt.Sprintf("panic escaped Check: %v", tb.escaped), map[string]any{"expr": lg.desc})
	}
	report("failing Check (final replay logs the draws)", map[string]any{})
	failAt = -1
	res.nontrivial(fmt.Sprintf("long/%s/%x", lg.desc, sc.Seed))
}
