package harness

// C01 — a reported failure is real.  C05 — minimisation keeps the failure and
// only gets smaller.  Both run generated programs through the real
// rapid.Check under several flag settings and cut points and judge the TB
// events, the invocation log, stream snapshots and the fail file.

import (
	"fmt"
	"os"
	"testing"
	"time"
)

func init() {
	monitors["C01"] = &monitor{scenarios: c01Scenarios, run: c01Run}
	monitors["C05"] = &monitor{scenarios: c05Scenarios, run: c05Run}
}

var cutKs = []int{1, 2, 3, 5, 8, 13, 21, 34}

type checkCfg struct {
	name    string
	flags   map[string]string
	sleepAt int
}

func c01Config(k int, seed uint64) checkCfg {
	rs := fmt.Sprint(mix(seed, 0xc01)%1000000 + 1)
	switch k {
	case 0:
		return checkCfg{"cut0", map[string]string{"rapid.seed": rs, "rapid.shrinktime": "0s"}, 0}
	case 1:
		return checkCfg{"full", map[string]string{"rapid.seed": rs, "rapid.shrinktime": "3s"}, 0}
	case 2:
		return checkCfg{"midcut", map[string]string{"rapid.seed": rs, "rapid.shrinktime": "40ms", "rapid.nofailfile": "true"}, cutKs[mix(seed, 5)%uint64(len(cutKs))]}
	case 3:
		return checkCfg{"checks5", map[string]string{"rapid.seed": rs, "rapid.checks": "5", "rapid.shrinktime": "0s", "rapid.nofailfile": "true"}, 0}
	case 4:
		return checkCfg{"checks1", map[string]string{"rapid.seed": rs, "rapid.checks": "1", "rapid.shrinktime": "3s"}, 0}
	default:
		return checkCfg{"verbose", map[string]string{"rapid.seed": rs, "rapid.v": "true", "rapid.shrinktime": "0s", "rapid.nofailfile": "true"}, 0}
	}
}

func progOptsFor(seed uint64) progOpts {
	r := newRng(seed, 0x0b75)
	return progOpts{
		rejecting:  r.chance(3, 5),
		sites:      r.between(1, 3),
		nonFatal:   r.chance(1, 2),
		repeat:     r.chance(2, 5),
		goroutines: r.chance(1, 7),
		cleanups:   r.chance(1, 4),
		customFail: r.chance(1, 3),
		// one Skip statement after the failure steps, reached by failing (non-fatal) and non-failing cases alike
		skipAfter: r.chance(1, 5),
	}
}

func c01Scenarios(cfg runCfg) []Scenario {
	var out []Scenario
	np := cfg.n(960, 25)
	for i := 0; i < np; i++ {
		if !cfg.mine(i) {
			continue
		}
		for k := 0; k < 6; k++ {
			out = append(out, Scenario{Family: "prog", Seed: mix(cfg.seed, 1, uint64(i)), K: k})
		}
	}
	return out
}

func c01Run(t *testing.T, sc Scenario, res *Result) {
	defer os.RemoveAll("testdata")
	p := genProg(sc.Seed, progOptsFor(sc.Seed))
	cc := c01Config(sc.K, sc.Seed)
	cr := runProgram(p, runOpts{name: fmt.Sprintf("C01_%x_%s", sc.Seed&0xffffff, cc.name), flags: cc.flags, sleepAt: cc.sleepAt})
	res.inc("checks_run")
	res.inc("cfg:" + cc.name)
	res.count("invocations", int64(len(cr.log.Invs)))
	for _, inv := range cr.log.Invs {
		res.inc("phase:" + inv.phase())
	}
	v := judgeReality(cr, cc.flags["rapid.nofailfile"] == "true")
	if v.inconclusive != "" {
		res.inconclusive(v.inconclusive + " program: " + clip(p.Desc, 300))
		return
	}
	if v.failedReported {
		res.inc("failures_reported")
		res.inc("failures_reported:" + cc.name)
		if v.candidates > 0 {
			res.nontrivial(fmt.Sprintf("%x/%d", sc.Seed, sc.K))
		}
		res.count("candidates_tried", int64(v.candidates))
		res.count("candidates_accepted", int64(v.accepted))
		if cr.dur > 2500*time.Millisecond {
			res.inc("cut_by_shrinktime")
		}
	} else if cr.rp.Kind == "ok" {
		res.inc("passed")
	} else if cr.rp.Kind == "only" {
		res.inc("only_generated")
	}
	for _, pr := range v.problems {
		v.detail["program"] = p.Desc
		v.detail["config"] = cc.name
		v.detail["flags"] = cc.flags
		v.detail["tb"] = cr.tb.brief()
		res.violate(sc, "c01/"+firstWords(pr, 6), pr, v.detail)
	}
	if v.failedReported && res.wantSample() && len(v.problems) == 0 && v.accepted > 0 {
		res.sample(map[string]any{"program": p.Desc, "config": cc.name, "reported": clip(cr.rp.Raw, 240), "invocations": len(cr.log.Invs),
			"accepted_candidates": v.accepted, "final": cr.log.Invs[len(cr.log.Invs)-1].brief()})
	}
}

func firstWords(s string, n int) string {
	cnt := 0
	for i, c := range s {
		if c == ' ' {
			cnt++
			if cnt == n {
				return s[:i]
			}
		}
	}
	return s
}

// ---------------------------------------------------------------------------
// C05

func c05Opts(seed uint64) progOpts {
	r := newRng(seed, 0xc05)
	o := progOpts{
		rejecting:  r.chance(1, 3),
		sites:      r.between(2, 4),
		nonFatal:   r.chance(1, 2),
		repeat:     r.chance(1, 4),
		siblings:   r.chance(1, 3),
		failDen:    r.between(3, 9),
		customFail: r.chance(1, 3),
	}
	if r.chance(1, 6) {
		o.repeat, o.fatalActions = true, true
	}
	o.recDepth = r.chance(1, 4)
	return o
}

func c05Config(k int, seed uint64) checkCfg {
	rs := fmt.Sprint(mix(seed, 0xc05)%1000000 + 1)
	switch k {
	case 0:
		return checkCfg{"cut0", map[string]string{"rapid.seed": rs, "rapid.shrinktime": "0s", "rapid.nofailfile": "true"}, 0}
	case 1:
		return checkCfg{"unlimited", map[string]string{"rapid.seed": rs, "rapid.shrinktime": "1h", "rapid.nofailfile": "true"}, 0}
	default:
		return checkCfg{fmt.Sprintf("midcut%d", cutKs[(k-2)%len(cutKs)]), map[string]string{"rapid.seed": rs, "rapid.shrinktime": "40ms", "rapid.nofailfile": "true"}, cutKs[(k-2)%len(cutKs)]}
	}
}

func c05Scenarios(cfg runCfg) []Scenario {
	var out []Scenario
	np := cfg.n(640, 25)
	for i := 0; i < np; i++ {
		if !cfg.mine(i) {
			continue
		}
		seed := mix(cfg.seed, 5, uint64(i))
		for _, k := range []int{0, 1, 2 + int(seed%4), 6 + int(seed>>8%4)} {
			out = append(out, Scenario{Family: "prog", Seed: seed, K: k})
		}
	}
	return out
}

func c05Run(t *testing.T, sc Scenario, res *Result) {
	p := genProg(sc.Seed, c05Opts(sc.Seed))
	cc := c05Config(sc.K, sc.Seed)
	cr := runProgram(p, runOpts{name: "C05", flags: cc.flags, sleepAt: cc.sleepAt})
	res.inc("checks_run")
	res.count("invocations", int64(len(cr.log.Invs)))
	v := judgeChain(cr)
	if v.inconclusive != "" {
		res.inconclusive(v.inconclusive + " program: " + clip(p.Desc, 300))
		return
	}
	if v.failedReported {
		res.inc("failures_reported")
		res.count("accepted_steps", int64(v.accepted))
		res.max("max:invocations_one_check", int64(len(cr.log.Invs)))
		sitesSeen := map[string]bool{}
		for _, inv := range cr.log.Invs {
			if k := inv.siteKey(); k != "" {
				sitesSeen[k] = true
			}
		}
		if len(sitesSeen) > 1 {
			res.inc("runs_where_other_sites_fired")
		}
		if v.accepted > 0 {
			res.nontrivial(fmt.Sprintf("%x/%d", sc.Seed, sc.K))
		}
		if cc.name == "unlimited" {
			res.inc("unlimited_runs_terminated")
		}
	}
	// the report must also be real (C01 oracle): "less small, never wrong"
	v2 := judgeReality(cr, true)
	if v2.inconclusive != "" {
		v2 = &verdict{detail: map[string]any{}}
	}
	probs := append(v.problems, v2.problems...)
	for k, d := range v2.detail {
		v.detail[k] = d
	}
	for _, pr := range probs {
		v.detail["program"] = p.Desc
		v.detail["config"] = cc.name
		v.detail["flags"] = cc.flags
		res.violate(sc, "c05/"+firstWords(pr, 6), pr, v.detail)
	}
	if v.failedReported && v.accepted > 1 && res.wantSample() && len(probs) == 0 {
		var chain []string
		for _, inv := range cr.log.Invs {
			if inv.phase() == "accepted" && len(chain) < 8 {
				chain = append(chain, wordsStr(inv.Cand))
			}
		}
		res.sample(map[string]any{"program": p.Desc, "config": cc.name, "site": cr.log.Invs[len(cr.log.Invs)-1].siteKey(), "accepted_chain_prefix": chain, "accepted": v.accepted})
	}
}
