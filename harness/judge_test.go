package harness

// Shared oracles over (TB events, invocation log, files on disk) for one
// rapid.Check of a generated program: used by C01, C05, C06, C07, C11.

import (
	"bufio"
	"fmt"
	"os"
	"regexp"
	"strconv"
	"strings"
	"time"
	"unicode"

	"pgregory.net/rapid"
)

type report struct {
	Kind     string // "", ok, failed, panic, flaky, only
	N        int    // "after N tests"
	M        string // failure named in the message
	Seed     uint64 // -rapid.seed=N (0 if absent)
	FailFile string // -rapid.failfile="..." ("" if absent)
	Passed   int    // OK, passed N tests
	Raw      string
}

var (
	reFailed = regexp.MustCompile(`(?s)^\[rapid\] (failed|panic) after (\d+) tests: (.*?)\nTo reproduce, specify -run="(?:.*?)" ?(.*?)\n`)
	reFlaky  = regexp.MustCompile(`(?s)^\[rapid\] flaky test, can not reproduce a failure\nTo try to reproduce, specify -run="(?:.*?)" ?(.*?)\n`)
	reSeed   = regexp.MustCompile(`-rapid\.seed=(\d+)`)
	reFF     = regexp.MustCompile(`-rapid\.failfile=("(?:[^"\\]|\\.)*")`)
	reOK     = regexp.MustCompile(`^\[rapid\] OK, passed (\d+) tests`)
	reOnly   = regexp.MustCompile(`^\[rapid\] only generated (\d+) valid tests from (\d+) total`)
)

func parseReport(tb *recTB) report {
	var rp report
	for _, e := range tb.snapshot() {
		switch e.Kind {
		case "error":
			if m := reFailed.FindStringSubmatch(e.Text); m != nil {
				rp.Kind = m[1]
				rp.N, _ = strconv.Atoi(m[2])
				rp.M = m[3]
				rp.Raw = e.Text
				parseRepr(&rp, m[4])
			} else if m := reFlaky.FindStringSubmatch(e.Text); m != nil {
				rp.Kind = "flaky"
				rp.Raw = e.Text
				parseRepr(&rp, m[1])
			} else if m := reOnly.FindStringSubmatch(e.Text); m != nil {
				rp.Kind = "only"
				rp.Passed, _ = strconv.Atoi(m[1])
				rp.N, _ = strconv.Atoi(m[2])
				rp.Raw = e.Text
			} else if rp.Kind == "" {
				rp.Kind = "other-error"
				rp.Raw = e.Text
			}
		case "log":
			if m := reOK.FindStringSubmatch(e.Text); m != nil && rp.Kind == "" {
				rp.Kind = "ok"
				rp.Passed, _ = strconv.Atoi(m[1])
			}
		}
	}
	return rp
}

func parseRepr(rp *report, s string) {
	if m := reSeed.FindStringSubmatch(s); m != nil {
		rp.Seed, _ = strconv.ParseUint(m[1], 10, 64)
	}
	if m := reFF.FindStringSubmatch(s); m != nil {
		if u, err := strconv.Unquote(m[1]); err == nil {
			rp.FailFile = u
		}
	}
}

// drawLinesAfterError returns the "[rapid] draw L: V" log lines that follow the last error event.
func drawLinesAfterError(tb *recTB) []string {
	ev := tb.snapshot()
	last := -1
	for i, e := range ev {
		if e.Kind == "error" {
			last = i
		}
	}
	var out []string
	for _, e := range ev[last+1:] {
		if e.Kind == "log" && strings.HasPrefix(e.Text, "[rapid] draw ") {
			out = append(out, e.Text)
		}
	}
	return out
}

// expectedDrawLines is what the final replay must have logged, from the harness's own record.
func expectedDrawLines(v *Inv) []string {
	var out []string
	n := 0
	for _, d := range v.Draws {
		if d.Level != 0 {
			continue
		}
		label := d.Label
		if label == "" {
			label = fmt.Sprintf("#%d", n)
		}
		out = append(out, fmt.Sprintf("[rapid] draw %v: %s", label, d.GoStr))
		n++
	}
	return out
}

// readFailFile parses a fail file independently of rapid's loader.
func readFailFile(path string) (version string, seed uint64, words []uint64, comments []string, err error) {
	f, err := os.Open(path)
	if err != nil {
		return "", 0, nil, nil, err
	}
	defer f.Close()
	rd := bufio.NewReaderSize(f, 1<<20)
	var data []string
	for {
		line, e := rd.ReadString('\n')
		s := strings.TrimSpace(line)
		if strings.HasPrefix(s, "#") {
			comments = append(comments, s)
		} else if s != "" {
			data = append(data, s)
		}
		if e != nil {
			break
		}
	}
	if len(data) == 0 {
		return "", 0, nil, comments, fmt.Errorf("no data")
	}
	parts := strings.Split(data[0], "#")
	if len(parts) != 2 {
		return "", 0, nil, comments, fmt.Errorf("bad header %q", data[0])
	}
	seed, err = strconv.ParseUint(parts[1], 10, 64)
	if err != nil {
		return "", 0, nil, comments, err
	}
	for _, w := range data[1:] {
		u, e := strconv.ParseUint(w, 0, 64)
		if e != nil {
			return "", 0, nil, comments, e
		}
		words = append(words, u)
	}
	return parts[0], seed, words, comments, nil
}

// checkRun is one monitored rapid.Check of a program.
type checkRun struct {
	tb  *recTB
	log *Log
	rp  report
	dur time.Duration
}

type runOpts struct {
	name    string
	flags   map[string]string
	lean    bool
	sleepAt int // sleep 50ms in the sleepAt-th invocation after the reproduction run (deterministic mid-round cut)
	noExit  bool
	as      func(*recTB) rapid.TB     // the TB handed to Check (default: the recording TB itself)
	during  func(call int, tb *recTB) // called at the start of every invocation of the property (1-based)
}

func runProgram(p *Prog, o runOpts) *checkRun {
	return runBody(p.body(), o)
}

func runBody(body func(x *X), o runOpts) *checkRun {
	setFlags(o.flags)
	tb := newTB(o.name)
	lg := &Log{noExit: o.noExit, lean: o.lean}
	afterRepro := -1
	calls := 0
	prop := lg.prop(func(x *X) {
		calls++
		if o.during != nil {
			o.during(calls, tb)
		}
		if o.sleepAt > 0 {
			if x.inv.phase() == "reproduce" {
				afterRepro = 0
			} else if afterRepro >= 0 {
				afterRepro++
				if afterRepro == o.sleepAt {
					time.Sleep(50 * time.Millisecond)
				}
			}
		}
		body(x)
	})
	start := time.Now()
	if o.as != nil {
		runCheckAs(tb, o.as(tb), prop)
	} else {
		runCheck(tb, prop)
	}
	cr := &checkRun{tb: tb, log: lg, dur: time.Since(start)}
	cr.rp = parseReport(tb)
	return cr
}

type verdict struct {
	inconclusive string
	problems     []string
	detail       map[string]any
	// facts for evidence
	failedReported bool
	accepted       int
	candidates     int
	chainSteps     int
}

func (v *verdict) bad(format string, a ...any) {
	v.problems = append(v.problems, fmt.Sprintf(format, a...))
}

// judgeReality implements the C01 oracle (DESIGN §5 C01, items 1–5).
func judgeReality(cr *checkRun, expectNoFailFile bool) *verdict {
	v := &verdict{detail: map[string]any{}}
	if cr.log.exhausted != "" {
		v.inconclusive = "watchdog: " + cr.log.exhausted
		return v
	}
	tb, lg, rp := cr.tb, cr.log, cr.rp
	if tb.escaped != nil {
		v.bad("a panic escaped Check: %v", tb.escaped)
		v.detail["stack"] = clip(tb.escStack, 3000)
		return v
	}
	invs := lg.Invs
	for _, inv := range invs {
		switch inv.phase() {
		case "accepted":
			v.accepted++
			v.candidates++
		case "buffer":
			v.candidates++
		}
	}
	anySignal := false
	for _, inv := range invs {
		if inv.signalled() {
			anySignal = true
		}
	}
	switch rp.Kind {
	case "ok", "only":
		return v
	case "flaky":
		v.bad("a deterministic program was reported as flaky: %s", clip(rp.Raw, 600))
		return v
	case "failed", "panic":
		v.failedReported = true
	default:
		if tb.Failed() {
			v.bad("TB failed with an unexpected message: %s", clip(rp.Raw, 300))
		}
		return v
	}
	if v.candidates >= 3 {
		v.candidates -= 2 // capture + final replay are not candidates (approximation for evidence only)
	}
	if !anySignal {
		v.bad("Check reported %q although no executed test case signalled a failure", clip(rp.Raw, 200))
		return v
	}
	final := invs[len(invs)-1]
	if final.Kind != "buffer" || final.Persist {
		v.bad("the last invocation is not the final replay (kind=%s persist=%v)", final.Kind, final.Persist)
		return v
	}
	v.detail["final"] = final.brief()
	v.detail["reported"] = clip(rp.Raw, 500)
	if !final.signalled() {
		v.bad("the presented test case (final replay) does not falsify the property: no failure signalled; reported %q", rp.M)
		return v
	}
	match := false
	for _, it := range final.Intents {
		kindOK := (rp.Kind == "panic") == it.Panic
		if it.Msg == rp.M && kindOK {
			match = true
		}
	}
	if !match {
		v.bad("the failure named in the message (%s: %q) is not a failure the final replay signalled (%v)", rp.Kind, clip(rp.M, 200), final.Intents)
	}
	// N = number of generated cases that completed without a signal before the falsified one
	valid := 0
	for _, inv := range invs {
		if inv.phase() == "generate" && inv.Returned && !inv.signalled() && inv.SkipWhy == "" {
			valid++ // (a case whose cleanup function skipped is invalid although its body returned)
		}
	}
	if rp.N != valid {
		v.bad("message says 'after %d tests' but %d generated test cases passed", rp.N, valid)
	}
	// logged draws = draws the final replay received
	got, want := drawLinesAfterError(tb), expectedDrawLines(final)
	if strings.Join(got, "\n") != strings.Join(want, "\n") {
		v.bad("logged draws differ from the values the final replay received")
		v.detail["logged"] = clipList(got, 12)
		v.detail["received"] = clipList(want, 12)
	}
	// fail file words = final replay words
	if rp.FailFile != "" {
		_, _, words, _, err := readFailFile(rp.FailFile)
		if err != nil {
			v.bad("fail file %q named in the message cannot be read back: %v", rp.FailFile, err)
		} else if !wordsEqual(words, final.Cand) {
			v.bad("fail file words differ from the final replay's bitstream")
			v.detail["file_words"] = wordsStr(words)
		}
	} else if !expectNoFailFile {
		v.bad("no fail file named in the failure message although fail files are enabled")
	}
	return v
}

func clipList(xs []string, n int) []string {
	var out []string
	for i, x := range xs {
		if i >= n {
			out = append(out, fmt.Sprintf("...+%d", len(xs)-i))
			break
		}
		out = append(out, clip(x, 200))
	}
	return out
}

// judgeChain implements the C05 oracle: same site throughout, strictly
// decreasing accepted candidates, reported buffer = last pruned recording.
func judgeChain(cr *checkRun) *verdict {
	v := &verdict{detail: map[string]any{}}
	exhausted := cr.log.exhausted != ""
	if exhausted {
		// the chain observed before the watchdog fired is still judged; only if it shows nothing is the run inconclusive
		defer func() {
			if len(v.problems) == 0 {
				v.inconclusive = "watchdog: " + cr.log.exhausted
			}
		}()
	} else if cr.rp.Kind != "failed" && cr.rp.Kind != "panic" {
		return v
	}
	v.failedReported = true
	invs := cr.log.Invs
	var first, repro *Inv
	for _, inv := range invs {
		if inv.phase() == "generate" && inv.signalled() && first == nil {
			first = inv
		}
		if inv.phase() == "reproduce" {
			repro = inv
		}
	}
	if first == nil || repro == nil || repro.Exit == nil {
		// failure came from somewhere else (fail file) – not this oracle's business
		return v
	}
	site := first.siteKey()
	if repro.siteKey() != site {
		v.bad("reproduction run failed at site %q, the falsified case at %q", repro.siteKey(), site)
	}
	best := rapid.VerifPrune(*repro.Exit)
	ref := refPrune(*repro.Exit)
	if !wordsEqual(best, ref) {
		v.bad("prune() of the reproduction recording differs from the reference prune: %s vs %s", wordsStr(best), wordsStr(ref))
	}
	orig := best
	if cr.log.witness != nil {
		invs = append(append([]*Inv(nil), invs...), cr.log.witness)
	}
	for _, inv := range invs {
		if inv.phase() != "accepted" {
			continue
		}
		v.accepted++
		if inv != cr.log.witness && inv.siteKey() != site {
			v.bad("accepted candidate #%d fails at site %q, the original failure at %q", v.accepted, inv.siteKey(), site)
			v.detail["offending"] = inv.brief()
		}
		if shortlexCmp(inv.Cand, best) >= 0 {
			v.bad("accepted candidate #%d is not strictly smaller than the current best: %s vs %s", v.accepted, wordsStr(inv.Cand), wordsStr(best))
		}
		if inv.Exit == nil {
			continue
		}
		nb := rapid.VerifPrune(*inv.Exit)
		if shortlexCmp(nb, inv.Cand) > 0 {
			v.bad("pruned recording of accepted candidate #%d is larger than the candidate", v.accepted)
		}
		best = nb
		v.chainSteps++
	}
	final := invs[len(invs)-1]
	if !exhausted && final.Kind == "buffer" && !final.Persist {
		if !wordsEqual(final.Cand, best) {
			v.bad("reported bitstream %s is not the last accepted (pruned) recording %s", wordsStr(final.Cand), wordsStr(best))
		}
		if final.siteKey() != site {
			v.bad("final replay fails at site %q, the failure originally found at %q", final.siteKey(), site)
			v.detail["first"] = first.brief()
			v.detail["final"] = final.brief()
		}
		if shortlexCmp(final.Cand, orig) > 0 {
			v.bad("minimized bitstream is larger than the original")
		}
	}
	return v
}

// refPrune is the harness's own reference for prune(): delete discard-marked
// groups (outermost first; nested groups vanish with their parent).
func refPrune(vs rapid.VerifStream) []uint64 {
	drop := make([]bool, len(vs.Data))
	for _, g := range vs.Groups {
		if g.Discard && g.End >= 0 {
			for i := g.Begin; i < g.End && i < len(drop); i++ {
				drop[i] = true
			}
		}
	}
	var out []uint64
	for i, w := range vs.Data {
		if !drop[i] {
			out = append(out, w)
		}
	}
	return out
}

// sanitize is the harness's own statement of the documented file-name rule:
// letters, digits, '-' and '_' are kept, everything else becomes '_'; a result
// equal (case-insensitively) to a Windows reserved device name gets a '_' suffix.
func sanitize(name string) string {
	var b strings.Builder
	for _, r := range name {
		if unicode.IsLetter(r) || unicode.IsDigit(r) || r == '-' || r == '_' {
			b.WriteRune(r)
		} else {
			b.WriteRune('_')
		}
	}
	s := b.String()
	up := strings.ToUpper(s)
	for _, res := range []string{"CON", "PRN", "AUX", "NUL"} {
		if up == res {
			return s + "_"
		}
	}
	for _, p := range []string{"COM", "LPT"} {
		if strings.HasPrefix(up, p) {
			rest := up[len(p):]
			switch rest {
			case "0", "1", "2", "3", "4", "5", "6", "7", "8", "9", "¹", "²", "³":
				return s + "_"
			}
		}
	}
	return s
}
