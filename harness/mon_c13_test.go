package harness

// C13 — MakeFuzz is total and faithful on arbitrary bytes.
// Real sub-tests; oracle: the words the property is handed are the
// little-endian words of the input (tail zero padded), draws/outcome equal a
// replay of those words, status follows from what the property did, running
// twice and appending unconsumed bytes change nothing.

import (
	"encoding/binary"
	"fmt"
	"strings"
	"testing"
	"time"

	"pgregory.net/rapid"
)

func init() {
	monitors["C13"] = &monitor{scenarios: c13Scenarios, run: c13Run, scenarioLimit: 240 * time.Second}
}

func c13Scenarios(cfg runCfg) []Scenario {
	var out []Scenario
	n := cfg.n(960, 50)
	for i := 0; i < n; i++ {
		if cfg.mine(i) {
			fam := "prog"
			if mix(cfg.seed, 1313, uint64(i))%8 == 0 {
				fam = "bools"
			}
			out = append(out, Scenario{Family: fam, Seed: mix(cfg.seed, 13, uint64(i)), N: 300})
		}
	}
	return out
}

func wordsToBytes(ws []uint64) []byte {
	b := make([]byte, 0, 8*len(ws))
	for _, w := range ws {
		b = binary.LittleEndian.AppendUint64(b, w)
	}
	return b
}

func expectStatus(inv *Inv) string {
	switch {
	case inv.signalled():
		return "fail"
	case inv.SkipWhy != "" || inv.Pending != "" || !inv.Returned:
		return "skip"
	default:
		return "pass"
	}
}

func c13Run(t *testing.T, sc Scenario, res *Result) {
	r := newRng(sc.Seed, 0xc13)
	var body func(x *X)
	var desc string
	nbools := 0
	if sc.Family == "bools" {
		nbools = r.between(1, 12)
		desc = fmt.Sprintf("%d x Bool()", nbools)
		body = func(x *X) {
			for i := 0; i < nbools; i++ {
				x.draw(rapid.Bool().AsAny(), fmt.Sprintf("b%d", i))
			}
		}
	} else {
		o := progOptsFor(sc.Seed)
		o.goroutines = false
		o.failDen = r.between(2, 12)
		p := genProg(sc.Seed, o)
		desc = p.Desc
		body = p.body()
	}
	lg := &Log{keepAll: true, wantLeft: true}
	prop := lg.prop(body)
	fz := rapid.MakeFuzz(prop)

	// seeds for informative inputs: recordings of a few PRNG runs
	var recs [][]uint64
	for s := 0; s < 4; s++ {
		vs, _ := rapid.VerifRecord(mix(sc.Seed, uint64(s)), prop)
		recs = append(recs, vs.Data)
	}
	run := func(in []byte) (*Inv, string) {
		lg.Invs = lg.Invs[:0]
		var st *testing.T
		t.Run("f", func(s *testing.T) { st = s; fz(s, in) })
		status := "pass"
		if st.Failed() {
			status = "fail"
		} else if st.Skipped() {
			status = "skip"
		}
		if len(lg.Invs) != 1 {
			return nil, status
		}
		return lg.Invs[0], status
	}
	for i := 0; i < sc.N; i++ {
		var in []byte
		switch r.intn(7) {
		case 6:
			// inputs that are TEXT: a fuzzing corpus of a test that also keeps rapid fail files, a corpus file header,
			// hex numbers ... they are bytes like any others (little-endian words), whatever they look like
			ws := pick(r, recs)
			var sb strings.Builder
			switch r.intn(5) {
			case 0, 1: // the text of a well-formed fail file of this version holding a recording of this very property
				if r.chance(1, 2) {
					sb.WriteString("# 2026/10/01 12:00:00.000000 [rapid] draw x: 1\n")
				}
				fmt.Fprintf(&sb, "%s#%d", rapidVersion(), r.intn(1000))
				for _, w := range ws {
					fmt.Fprintf(&sb, "\n0x%x", w)
				}
				if r.chance(1, 3) {
					sb.WriteString("\n")
				}
			case 2:
				sb.WriteString("go test fuzz v1\n[]byte(\"abc\")\n")
			case 3:
				for _, w := range ws {
					fmt.Fprintf(&sb, "0x%x\n", w)
				}
			default:
				fmt.Fprintf(&sb, "{\"seed\": %d, \"words\": [1, 2, 3]}", r.intn(1000))
			}
			in = []byte(sb.String())
			res.inc("text_inputs")
		case 0:
			in = hostileBytes(r, 40)
		case 1:
			in = wordsToBytes(pick(r, recs))
		case 2: // recording with hostile replacements
			ws := append([]uint64(nil), pick(r, recs)...)
			for j := 0; j < 1+len(ws)/6; j++ {
				if len(ws) > 0 {
					ws[r.intn(len(ws))] = hostileWord(r, r.intn(wordPatterns))
				}
			}
			in = wordsToBytes(ws)
		case 3: // truncated at an arbitrary byte offset (all residues mod 8)
			in = wordsToBytes(pick(r, recs))
			if len(in) > 0 {
				in = in[:r.intn(len(in)+1)]
			}
		case 4: // recording plus extra bytes
			in = append(wordsToBytes(pick(r, recs)), hostileBytes(r, 4)...)
		default:
			in = make([]byte, r.intn(64))
			for j := range in {
				in[j] = byte(r.next())
			}
		}
		words := bytesToWords(in)
		inv, status := run(in)
		res.inc("fuzz_cases")
		res.inc("status:" + status)
		res.inc(fmt.Sprintf("len_mod8:%d", len(in)%8))
		detail := map[string]any{"program": desc, "input_len": len(in), "input_words": wordsStr(words), "status": status}
		if inv == nil {
			res.violate(sc, "c13/invocations", "MakeFuzz did not invoke the property exactly once", detail)
			continue
		}
		detail["invocation"] = inv.brief()
		// encoding: what the property was handed
		if inv.Kind != "buffer" || !wordsEqual(inv.Cand, words) {
			res.violate(sc, "c13/encoding", fmt.Sprintf("the bitstream handed to the property is not the little-endian words of the input (tail zero padded): got %s", wordsStr(inv.Cand)), detail)
			continue
		}
		// status follows from what the property did
		if want := expectStatus(inv); want != status {
			res.violate(sc, "c13/status", fmt.Sprintf("fuzz sub-test status is %q but the property's own log says %q", status, want), detail)
		}
		if status != "skip" {
			res.nontrivial(desc + "\x00" + inv.drawsKey())
		}
		// independent encoding check: a Bool is the lowest bit of its word
		if nbools > 0 {
			for j, d := range inv.Draws {
				want := "false"
				if words[j]&1 == 1 {
					want = "true"
				}
				if d.Canon != want {
					res.violate(sc, "c13/bool-bit", fmt.Sprintf("Bool #%d is %s but word %#x has lowest bit %d", j, d.Canon, words[j], words[j]&1), detail)
				}
			}
			if exp := len(words); len(inv.Draws) != min(exp, nbools) {
				res.violate(sc, "c13/bool-count", fmt.Sprintf("%d words given, %d of %d Bools drawn", exp, len(inv.Draws), nbools), detail)
			}
		}
		// faithful: same draws and verdict as a replay of those words
		key, intents := inv.drawsKey(), fmt.Sprint(inv.Intents)
		o := rapid.VerifReplay(words, prop)
		rpl := lg.Invs[len(lg.Invs)-1]
		wantStatus := map[string]string{"ok": "pass", "invalid": "skip", "failed": "fail", "panic": "fail"}[o.Kind]
		if rpl.drawsKey() != key || wantStatus != status {
			detail["replay"] = rpl.brief()
			detail["replay_outcome"] = outcomeStr(o)
			res.violate(sc, "c13/replay", "MakeFuzz gave the property other draws or another outcome than a replay of the same words", detail)
		}
		overrun := o.Kind == "invalid" && strings.Contains(o.Msg, "overrun")
		if overrun {
			res.inc("overruns")
		}
		// deterministic: twice the same
		if i%3 == 0 {
			inv2, status2 := run(in)
			if inv2 == nil || inv2.drawsKey() != key || status2 != status || fmt.Sprint(inv2.Intents) != intents {
				res.violate(sc, "c13/twice", "running the same input twice gave different draws or status", detail)
			}
			res.inc("repeat_runs")
		}
		// appending bytes the property does not consume changes nothing
		// (when the run was cut short as invalid with every word consumed the input may have been exhausted
		// inside a retried generator, so nothing can be said)
		ownEnd := inv.Returned || inv.SkipWhy != ""
		for _, it := range inv.Intents {
			if (it.Fatal || it.Panic) && !strings.Contains(it.Where, "cleanup") {
				ownEnd = true // the body stopped itself
			}
		}
		exhausted := overrun || (inv.Left == 0 && !ownEnd)
		if exhausted && !overrun {
			res.inc("possibly_exhausted_inside_retry")
		}
		if !exhausted && i%2 == 0 {
			padded := wordsToBytes(words)
			ext := append(padded, hostileBytes(r, 6)...)
			if len(ext) == len(padded) {
				ext = append(ext, 0xff)
			}
			if i%16 == 0 {
				// the fuzzing engine grows inputs up to about a megabyte: still the same test case
				long := make([]byte, 65536+r.intn(200000))
				for j := range long {
					long[j] = byte(r.next())
				}
				ext = append(ext, long...)
				res.inc("tail_runs_with_more_than_64KiB")
			}
			inv3, status3 := run(ext)
			if inv3 == nil || inv3.drawsKey() != key || status3 != status {
				detail["extended_len"] = len(ext)
				if inv3 != nil {
					detail["extended"] = inv3.brief()
				}
				res.violate(sc, "c13/tail", "appending bytes that the property does not consume changed the draws or the outcome", detail)
			}
			res.inc("tail_runs")
		}
		if res.wantSample() && status == "fail" && r.chance(1, 30) {
			res.sample(map[string]any{"program": desc, "input_len": len(in), "input_words": wordsStr(words), "status": status, "draws": inv.brief()["draws"]})
		}
	}
}
