package harness

// C06 — a failure is persisted and replayed first on the next run.
// C17 — unusable fail files are ignored and never change the verdict.
// Both are decided on two-run histories in a scratch working directory.

import (
	"bytes"
	"flag"
	"fmt"
	"os"
	"os/exec"
	"path/filepath"
	"regexp"
	"runtime/debug"
	"strings"
	"syscall"
	"testing"
	"time"

	"pgregory.net/rapid"
)

func init() {
	monitors["C06"] = &monitor{scenarios: c06Scenarios, run: c06Run}
	monitors["C17"] = &monitor{scenarios: c17Scenarios, run: c17Run}
}

var c06Names = []string{
	"TestPlain", "TestSub/case#01", "Test/with spaces and\ttabs", "Тест/юникод_Ω", "测试用例", "a/b", "a_b", "..", "../../etc/passwd", `C:\temp\x`,
	"glob*?[a-z]{x}", "bad\xff\xfeutf8", "CON", "com1", "LPT9", "nul", "Test#%&$@!~", "x", "-", "_", "ǅ", "Test\x00NUL", "ÄÖÜäöüß", "T̈est",
}

var c06Outputs = []string{"none", "text", "binary", "nul", "crlf", "hash-lines", "empty-lines", "long-65534", "long-65536", "long-1MiB", "bigslice"}

func c06Scenarios(cfg runCfg) []Scenario {
	var out []Scenario
	n := cfg.n(4800, 10)
	for i := 0; i < n; i++ {
		if !cfg.mine(i) {
			continue
		}
		r := newRng(cfg.seed, 6, uint64(i))
		name := pick(r, c06Names)
		if r.chance(1, 8) {
			name = strings.Repeat(name+"/", 1+180/(len(name)+1))[:180] // up to ~180 bytes
		}
		if r.chance(1, 10) {
			// as long as a name can be: "<name>-<14 digit time>-<pid>.fail" still has to fit into 255 bytes
			name = strings.Repeat("LongTestName_", 20)[:r.between(205, 226)]
		}
		x := map[string]string{"out": c06Outputs[i%len(c06Outputs)]}
		if r.chance(1, 6) {
			x["two"] = "1" // the test function calls Check twice (a passing property first)
		}
		switch r.intn(10) {
		case 0:
			x["stale"] = "12" // a dozen old fail files (written by another rapid version) are lying around already
		case 1:
			x["tmpdir"] = "/dev/shm" // the system's temporary directory is on another file system than the package
		case 2:
			x["symlink"] = "1" // before the next run the fail file is moved away and a symbolic link is left in its place
		case 3, 4:
			x["upgrade"] = "1" // after the replays rapid is "upgraded" (the saved file is of another version now) and the test fails again
		}
		out = append(out, Scenario{Family: "history", Seed: mix(cfg.seed, 6, uint64(i)), S: name, X: x})
	}
	for i := 0; i < cfg.n(64, 10); i++ {
		if cfg.mine(i) {
			out = append(out, Scenario{Family: "save-fails", Seed: mix(cfg.seed, 6, 66, uint64(i)), S: pick(newRng(cfg.seed, 66, uint64(i)), c06Names), K: i % 3})
		}
	}
	return out
}

// c06SaveFails: the fail file cannot be written (a regular file sits where a directory is needed).  Persisting is a
// convenience; the failure itself must be reported as usual (with the seed to reproduce it), nothing may crash and
// nothing that looks like a fail file may appear.
func c06SaveFails(t *testing.T, sc Scenario, res *Result) {
	name := sc.S
	blocker := []string{"testdata", filepath.Join("testdata", "rapid"), failDir(name)}[sc.K]
	os.MkdirAll(filepath.Dir(blocker), 0o775)
	if err := os.WriteFile(blocker, []byte("not a directory"), 0o644); err != nil {
		res.inconclusive("cannot plant the blocking file: " + err.Error())
		return
	}
	thr := int64(pick(newRng(sc.Seed, 1), []int{0, 5, 1000, 1 << 20}))
	run := runBody(c06Body("text", thr, false, sc.Seed), runOpts{name: name, flags: map[string]string{"rapid.shrinktime": "50ms", "rapid.checks": "300"}})
	res.inc("histories")
	res.inc("save_fails_runs")
	res.nontrivial(fmt.Sprintf("save-fails/%s/%d", sanitize(name), sc.K))
	detail := map[string]any{"name": name, "blocking_file": blocker, "tb": run.tb.brief()}
	if run.tb.escaped != nil {
		res.violate(sc, "c06/save-fails-crash", fmt.Sprintf("Check crashed when the fail file could not be written: %v", run.tb.escaped), detail)
		return
	}
	if run.rp.Kind != "failed" && run.rp.Kind != "panic" {
		res.violate(sc, "c06/save-fails-verdict", "the failure was not reported when the fail file could not be written: "+clip(run.rp.Raw, 300), detail)
		return
	}
	if run.rp.Seed == 0 || run.rp.FailFile != "" {
		res.violate(sc, "c06/save-fails-message", "the message must offer the seed (and no fail file that does not exist): "+clip(run.rp.Raw, 300), detail)
	}
	logged := false
	for _, l := range run.tb.logs() {
		if strings.HasPrefix(l, "[rapid] failed to ") {
			logged = true
		}
	}
	if !logged {
		res.violate(sc, "c06/save-fails-log", "no log line tells that the fail file could not be saved", detail)
	}
	v := judgeReality(run, true)
	for _, pr := range v.problems {
		res.violate(sc, "c06/save-fails/"+firstWords(pr, 5), "fail file could not be written: "+pr, detail)
	}
	if b, err := os.ReadFile(blocker); err != nil || string(b) != "not a directory" {
		res.violate(sc, "c06/save-fails-clobbered", "the file that was in the way was modified or removed", detail)
	}
}

func c06Output(x *X, kind string, r *rng) {
	t := x.t
	switch kind {
	case "none":
	case "text":
		t.Logf("plain output %d", 42)
		t.Log("second", "line")
	case "binary":
		b := make([]byte, 200)
		for i := range b {
			b[i] = byte(i*7 + 1)
		}
		t.Logf("%s", b)
	case "nul":
		t.Logf("a\x00b\x00\x00c")
	case "crlf":
		t.Logf("l1\r\nl2\rl3\n\rl4\n\n")
	case "hash-lines":
		t.Logf("# looks like a comment\n#v0.4.8#12345\n0x1\n# 0x2")
		t.Logf("v0.4.8#1\n0xdeadbeef")
	case "empty-lines":
		t.Logf("\n\n\n")
		t.Log("")
	case "long-65534":
		t.Logf("%s", strings.Repeat("x", 65534-2))
	case "long-65536":
		t.Logf("%s", strings.Repeat("y", 65536))
	case "long-1MiB":
		t.Logf("%s", strings.Repeat("z", 1<<20))
	}
}

// c06Body: logs, draws, then fails when the first draw exceeds a threshold (or at once for thr < 0).
func c06Body(outKind string, thr int64, bigSlice bool, seed uint64) func(x *X) {
	multiline := mix(seed, 0x3117)%5 == 0 && thr >= 0
	return func(x *X) {
		r := newRng(seed)
		c06Output(x, outKind, r)
		if thr < 0 {
			x.fail(fkFatalf, 0) // fails before drawing: empty bitstream
		}
		v := x.draw(rapid.Int64().AsAny(), "v").(int64)
		x.draw(rapid.SliceOfN(rapid.Byte(), 0, 4).AsAny(), "")
		if bigSlice {
			x.draw(rapid.SliceOfN(rapid.Uint64(), 6000, 6000).AsAny(), "big")
		}
		if v >= thr || v <= -thr {
			if multiline {
				// a failure message of several lines, some of which look like the data part of a fail file
				msg := fmt.Sprintf("mismatch for %d:\n got: 1\nwant: 2\nv0.4.8#7\n0x1f\n# trailing", v%7)
				x.inv.Intents = append(x.inv.Intents, Intent{Kind: "Fatalf", Site: 1, Msg: msg, Fatal: true, Where: x.where})
				x.ev("signal Fatalf site=1")
				x.t.Fatalf("%s", msg)
			}
			x.fail(fkFatalf, 1)
		}
	}
}

func listFailDir(name string) (final, temps, others []string) {
	ents, err := os.ReadDir(failDir(name))
	if err != nil {
		return
	}
	san := sanitize(name)
	for _, e := range ents {
		n := e.Name()
		switch {
		case strings.HasPrefix(n, san+"-") && strings.HasSuffix(n, ".fail"):
			final = append(final, filepath.Join(failDir(name), n))
		case strings.HasPrefix(n, ".rapid-failfile-tmp-"):
			temps = append(temps, n)
		default:
			others = append(others, n)
		}
	}
	return
}

func c06Run(t *testing.T, sc Scenario, res *Result) {
	defer os.RemoveAll("testdata")
	os.RemoveAll("testdata")
	if sc.Family == "save-fails" {
		c06SaveFails(t, sc, res)
		return
	}
	r := newRng(sc.Seed, 0xc06)
	name := sc.S
	outKind := sc.X["out"]
	thr := int64(pick(r, []int{-1, 0, 1, 5, 1000, 1 << 20, 1 << 40}))
	big := outKind == "bigslice"
	shrink := pick(r, []string{"0s", "50ms", "2s"})
	if big || strings.HasPrefix(outKind, "long") {
		shrink = "0s"
	}
	body := c06Body(outKind, thr, big, sc.Seed)
	fl1 := map[string]string{"rapid.shrinktime": shrink, "rapid.checks": "300"}
	if r.chance(1, 2) {
		fl1["rapid.seed"] = fmt.Sprint(sc.Seed%100000 + 1)
	}
	two := sc.X["two"] == "1"
	okBody := func(x *X) { x.draw(rapid.Uint8().AsAny(), "ok") }
	if two {
		// the same test calls Check twice: a property that always passes, then the failing one
		runBody(okBody, runOpts{name: name, flags: fl1})
		res.inc("two_check_histories")
	}
	if sc.X["stale"] != "" {
		for i := 0; i < 12; i++ {
			writeFailFile(name, fmt.Sprintf("202001010000%02d-%d", i, 1000+i), "v0.0.1", 7, []uint64{1, 2, 3}, "written long ago by another version")
		}
		res.inc("histories_with_a_dozen_stale_files")
	}
	if td := sc.X["tmpdir"]; td != "" {
		if st, err := os.Stat(td); err == nil && st.IsDir() {
			old, had := os.LookupEnv("TMPDIR")
			os.Setenv("TMPDIR", td)
			defer func() {
				if had {
					os.Setenv("TMPDIR", old)
				} else {
					os.Unsetenv("TMPDIR")
				}
			}()
			res.inc("histories_with_TMPDIR_elsewhere")
		}
	}
	run1 := runBody(body, runOpts{name: name, flags: fl1})
	res.inc("histories")
	detail := map[string]any{"name": name, "sanitized": sanitize(name), "output": outKind, "threshold": thr, "run1": run1.tb.brief()}
	if run1.rp.Kind != "failed" && run1.rp.Kind != "panic" {
		res.inconclusive("run 1 did not fail: " + clip(run1.rp.Raw, 100))
		return
	}
	v1 := judgeReality(run1, false)
	for _, pr := range v1.problems {
		res.violate(sc, "c06/run1/"+firstWords(pr, 5), "run 1: "+pr, detail)
	}
	final, temps, others := listFailDir(name)
	if sc.X["stale"] != "" {
		var fresh []string
		for _, f := range final {
			if !strings.Contains(filepath.Base(f), "-2020010100") {
				fresh = append(fresh, f)
			}
		}
		final = fresh
	}
	detail["dir"] = map[string]any{"final": final, "temps": temps, "others": others}
	if len(final) != 1 {
		res.violate(sc, "c06/file-count", fmt.Sprintf("%d files match testdata/rapid/<name>/<name>-*.fail after a failing run (expected exactly 1)", len(final)), detail)
		return
	}
	if len(temps) > 0 {
		res.violate(sc, "c06/temp-left", fmt.Sprintf("temporary files left behind: %v", temps), detail)
	}
	if run1.rp.FailFile != final[0] {
		res.violate(sc, "c06/path", fmt.Sprintf("message names %q but the file is %q", run1.rp.FailFile, final[0]), detail)
	}
	finalInv := run1.log.Invs[len(run1.log.Invs)-1]
	_, _, words, comments, err := readFailFile(final[0])
	if err != nil {
		res.violate(sc, "c06/unreadable", "the fail file cannot be parsed: "+err.Error(), detail)
		return
	}
	if !wordsEqual(words, finalInv.Cand) {
		res.violate(sc, "c06/words", "fail file does not encode the minimised test case", detail)
	}
	res.count("comment_lines", int64(len(comments)))
	st, _ := os.Stat(final[0])
	res.max("max:fail_file_bytes", st.Size())
	res.nontrivial(sanitize(name) + "|" + outKind + "|" + fmt.Sprint(thr))

	// run 2: the same Check, no seed flag, must replay the file first
	judge2 := func(tag string, run2 *checkRun) {
		d2 := map[string]any{}
		for k, v := range detail {
			d2[k] = v
		}
		d2["run2"] = run2.tb.brief()
		d2["how"] = tag
		if len(run2.log.Invs) == 0 {
			res.violate(sc, "c06/"+tag+"/no-invocation", "run 2 made no invocation", d2)
			return
		}
		first := run2.log.Invs[0]
		d2["run2_first"] = first.brief()
		switch {
		case first.Kind != "buffer":
			res.violate(sc, "c06/"+tag+"/not-first", "run 2 did not replay the persisted failure before random test cases (fail file ignored?)", d2)
		case !wordsEqual(first.Cand, words):
			res.violate(sc, "c06/"+tag+"/other-words", "run 2 replayed a different bitstream than the persisted one", d2)
		case first.drawsKey() != finalInv.drawsKey():
			res.violate(sc, "c06/"+tag+"/other-draws", "run 2's replay drew different values than run 1's final test case", d2)
		}
		if (run2.rp.Kind != "failed" && run2.rp.Kind != "panic") || run2.rp.N != 0 || run2.rp.M != run1.rp.M {
			res.violate(sc, "c06/"+tag+"/verdict", fmt.Sprintf("run 2 did not fail 'after 0 tests' with the same failure: %s", clip(run2.rp.Raw, 200)), d2)
		}
		for _, inv := range run2.log.Invs {
			if inv.Kind == "random" {
				res.violate(sc, "c06/"+tag+"/random-case", "run 2 generated random test cases although the persisted failure reproduces", d2)
				break
			}
		}
		res.inc("run2:" + tag)
	}
	if sc.X["symlink"] == "1" {
		// testdata is populated with links into a store (Bazel runfiles, Nix, git-annex): the fail file is reached
		// through a symbolic link
		store, _ := os.MkdirTemp(".", "store")
		store, _ = filepath.Abs(store)
		defer os.RemoveAll(store)
		real := filepath.Join(store, "real.fail")
		if err := os.Rename(final[0], real); err == nil {
			if err := os.Symlink(real, final[0]); err != nil {
				os.Rename(real, final[0])
			} else {
				res.inc("histories_with_symlinked_fail_file")
			}
		}
	}
	if two {
		// next run of the test: the passing Check comes first again and sees (and must leave alone) the other Check's fail file
		ok2 := runBody(okBody, runOpts{name: name, flags: map[string]string{"rapid.shrinktime": shrink}})
		if ok2.tb.Failed() {
			res.inc("two_check_first_check_failed_on_foreign_file")
		}
	}
	run2 := runBody(body, runOpts{name: name, flags: map[string]string{"rapid.shrinktime": shrink}})
	judge2("auto", run2)
	planted := 0
	if sc.X["stale"] != "" {
		planted = 12
	}
	if f2, _, _ := listFailDir(name); len(f2) != 1+planted {
		res.violate(sc, "c06/second-file", fmt.Sprintf("%d fail files after replaying a persisted failure (expected still %d)", len(f2), 1+planted), detail)
	}
	// run 3: from another working directory with -rapid.failfile=<path>
	abs, _ := filepath.Abs(final[0])
	wd, _ := os.Getwd()
	other, _ := os.MkdirTemp(wd, "elsewhere")
	defer os.RemoveAll(other)
	moved := filepath.Join(other, "moved-"+fmt.Sprint(sc.Seed&0xffff)+".fail")
	useMoved := r.chance(1, 2)
	if mix(sc.Seed, 0x910b)%3 == 0 {
		// a path is a path: characters that mean something to a glob ("run[42]", "a*b", "what?") are part of the name
		sub := filepath.Join(other, pick(r, []string{"run[42]", "a*b", "what?", "x[!y]z", "back\\slash"}))
		if err := os.MkdirAll(sub, 0o775); err == nil {
			moved = filepath.Join(sub, "given[1].fail")
			useMoved = true
			res.inc("explicit_paths_with_glob_characters")
		}
	}
	if useMoved {
		b, _ := os.ReadFile(abs)
		os.WriteFile(moved, b, 0o644)
		abs = moved
	}
	os.Chdir(other)
	run3 := runBody(body, runOpts{name: name, flags: map[string]string{"rapid.shrinktime": shrink, "rapid.failfile": abs}})
	os.Chdir(wd)
	judge2("flag", run3)
	if sc.X["upgrade"] == "1" {
		// rapid is upgraded: the saved file is of another version now and is ignored.  The test fails again (same
		// flags as run 1: often the very same minimised bitstream) - that failure must be persisted afresh and
		// replayed first by the run after it.
		b, _ := os.ReadFile(final[0])
		nb := bytes.Replace(b, []byte("\n"+rapidVersion()+"#"), []byte("\nv0.3.9#"), 1)
		if bytes.HasPrefix(b, []byte(rapidVersion()+"#")) {
			nb = append([]byte("v0.3.9#"), b[len(rapidVersion())+1:]...)
		}
		if !bytes.Equal(nb, b) && os.WriteFile(final[0], nb, 0o644) == nil {
			run4 := runBody(body, runOpts{name: name, flags: fl1})
			d4 := map[string]any{"name": name, "old_file_now_of_another_version": final[0], "run4": run4.tb.brief()}
			res.inc("upgrade_histories")
			if run4.rp.Kind != "failed" && run4.rp.Kind != "panic" {
				res.inc("upgrade_run_did_not_fail")
			} else {
				f4, _, _ := listFailDir(name)
				var fresh []string
				for _, f := range f4 {
					if v, _, _, _, err := readFailFile(f); err == nil && v == rapidVersion() {
						fresh = append(fresh, f)
					}
				}
				d4["dir"] = f4
				fin4 := run4.log.Invs[len(run4.log.Invs)-1]
				switch {
				case len(fresh) != 1:
					res.violate(sc, "c06/upgrade/file-count", fmt.Sprintf("after the upgrade the test failed again, %d fail files of the current version exist (expected exactly 1: the failure must be persisted afresh)", len(fresh)), d4)
				case run4.rp.FailFile != fresh[0]:
					res.violate(sc, "c06/upgrade/path", fmt.Sprintf("message names %q but the usable file is %q", run4.rp.FailFile, fresh[0]), d4)
				default:
					if _, _, w4, _, err := readFailFile(fresh[0]); err != nil || !wordsEqual(w4, fin4.Cand) {
						res.violate(sc, "c06/upgrade/words", "the fail file written after the upgrade does not encode the minimised test case", d4)
					}
					run5 := runBody(body, runOpts{name: name, flags: map[string]string{"rapid.shrinktime": shrink}})
					d4["run5"] = run5.tb.brief()
					if len(run5.log.Invs) == 0 || run5.log.Invs[0].Kind != "buffer" || !wordsEqual(run5.log.Invs[0].Cand, fin4.Cand) || run5.rp.N != 0 || run5.rp.M != run4.rp.M {
						res.violate(sc, "c06/upgrade/not-replayed", "the failure persisted after the upgrade was not replayed first ('after 0 tests', same failure) by the next run: "+clip(run5.rp.Raw, 200), d4)
					}
					res.inc("upgrade_histories_replayed")
				}
			}
		}
	}
	if res.wantSample() && r.chance(1, 8) {
		res.sample(map[string]any{"test_name": name, "fail_file": final[0], "output_class": outKind, "words": wordsStr(words), "comment_lines": len(comments), "run2": clip(run2.rp.Raw, 120)})
	}
}

// ---------------------------------------------------------------------------
// C17

var c17Kinds = []string{"empty", "random-bytes", "directory", "dangling-symlink", "other-version", "missing-hash", "extra-hash", "bad-seed", "huge-seed",
	"bad-word", "huge-word", "truncated", "bitflip", "now-passes", "overrun", "only-comments", "skips-now", "one-char-word", "negative-word", "spaces",
	// a hand-edited file: the captured output (the leading '#' lines) was stripped, or a blank line comes first
	"now-passes-no-comments", "overrun-no-comments", "now-passes-blank-first"}

func c17Scenarios(cfg runCfg) []Scenario {
	var out []Scenario
	n := cfg.n(4000, 25)
	for i := 0; i < n; i++ {
		if cfg.mine(i) {
			fam := "dir"
			switch mix(cfg.seed, 1717, uint64(i)) % 10 {
			case 0, 1:
				fam = "explicit"
			case 2:
				fam = "version"
			case 3:
				fam = "explicit-history"
			case 4:
				if i%3 == 0 {
					fam = "usable-among-others"
				}
			}
			out = append(out, Scenario{Family: fam, Seed: mix(cfg.seed, 17, uint64(i)), K: 1 + i%6})
		}
	}
	// a stale fail file whose replay is slow, under a real *testing.T with a test deadline (child process)
	if cfg.shard%8 == 3 {
		out = append(out, Scenario{Family: "slow-stale-file", Seed: mix(cfg.seed, 17, 99, uint64(cfg.shard))})
	}
	if cfg.shard == 7 {
		out = append(out, Scenario{Family: "many-empty-files", Seed: mix(cfg.seed, 17, 98)})
	}
	return out
}

// TestManyEmptyFilesChild only runs in the child process started by the C17 "many-empty-files" family: 800 unusable
// fail files (empty ones, directories of that name, binary files, text) and one usable, still failing one, in a process that may have 128 files open and does not collect garbage.
func TestManyEmptyFilesChild(t *testing.T) {
	if os.Getenv("C17_MANY_EMPTY") == "" {
		t.Skip("not a C17 child")
	}
	defer os.RemoveAll("testdata")
	saved := map[string]string{}
	flag.VisitAll(func(f *flag.Flag) {
		if strings.HasPrefix(f.Name, "rapid.") {
			saved[f.Name] = f.Value.String()
		}
	})
	ver := rapidVersion()
	for k, v := range saved {
		_ = flag.Set(k, v)
	}
	binaries := [][]byte{append([]byte("\x7fELF\x02\x01\x01"), make([]byte, 57)...), []byte("\x1f\x8b\x08\x00\x00\x00\x00\x00\x00\x03garbage"), make([]byte, 4096), []byte("\x00\x01\x02\x03\n\x04"), []byte("\xff\xfe\x00#\x001\x00")}
	for i := 0; i < 800; i++ {
		p := writeFailFile(t.Name(), fmt.Sprintf("20200101%06d-%d", i, i), ver, 1, nil, "")
		_ = os.WriteFile(p, nil, 0o644)
		switch i % 4 {
		case 1:
			// not even a file: a directory with the name of a fail file is as unusable, and as harmless
			_ = os.Remove(p)
			_ = os.Mkdir(p, 0o755)
		case 2:
			// binary files (an executable, a gzip stream, zeros, control bytes, UTF-16) that ended up under that name
			_ = os.WriteFile(p, binaries[(i/4)%len(binaries)], 0o644)
		case 3:
			_ = os.WriteFile(p, []byte("this is not a fail file\nat all\n"), 0o644)
		}
	}
	writeFailFile(t.Name(), "20260101000000-1", ver, 1, []uint64{7, 7, 7, 7}, "still fails")
	lim := syscall.Rlimit{Cur: 128, Max: 128}
	if err := syscall.Setrlimit(syscall.RLIMIT_NOFILE, &lim); err != nil {
		fmt.Println("MANY-EMPTY-CHILD-NO-RLIMIT", err)
		return
	}
	debug.SetGCPercent(-1)
	fmt.Println("MANY-EMPTY-CHILD-RAN")
	rapid.Check(t, func(rt *rapid.T) {
		rapid.Uint8().Draw(rt, "v")
		// the property needs a few file descriptors of its own
		var fs []*os.File
		for i := 0; i < 8; i++ {
			f, err := os.Open(os.Args[0])
			if err != nil {
				rt.Fatalf("the property cannot open a file: %v", err)
			}
			fs = append(fs, f)
		}
		for _, f := range fs {
			f.Close()
		}
		if rapid.VerifStreamOf(rt).Kind == "buffer" {
			rt.Fatalf("the saved test case still fails")
		}
	})
}

// TestStaleSlowChild only runs in the child processes started by the C17 "slow-stale-file" family: with
// C17_STALE=1 a fail file that no longer fails (and takes 3.5 s to replay) is present.
func TestStaleSlowChild(t *testing.T) {
	mode := os.Getenv("C17_STALE")
	if mode == "" {
		t.Skip("not a C17 child")
	}
	defer os.RemoveAll("testdata")
	// rapidVersion() runs a Check of its own under flags of its own: keep the flags this process was started with
	saved := map[string]string{}
	flag.VisitAll(func(f *flag.Flag) {
		if strings.HasPrefix(f.Name, "rapid.") {
			saved[f.Name] = f.Value.String()
		}
	})
	ver := rapidVersion()
	for k, v := range saved {
		if err := flag.Set(k, v); err != nil {
			t.Fatal(err)
		}
	}
	if mode == "1" {
		writeFailFile(t.Name(), "20260101000000-1", ver, 1, []uint64{7, 7, 7, 7}, "stale")
	}
	fmt.Println("STALE-CHILD-RAN")
	var h uint64
	n := 0
	rapid.Check(t, func(rt *rapid.T) {
		if rapid.VerifStreamOf(rt).Kind == "buffer" {
			time.Sleep(3500 * time.Millisecond) // the old test case still runs (slowly), it just passes now
			rapid.Uint64().Draw(rt, "v")
			return
		}
		n++
		h = mix(h, rapid.Uint64().Draw(rt, "v"))
	})
	fmt.Printf("STALE-CHILD-RESULT cases=%d digest=%x\n", n, h)
}

// c17NoFileErrors: whatever is wrong with a fail file is a log line, never an error of the test.
func c17NoFileErrors(res *Result, sc Scenario, run *checkRun, what string) {
	for _, e := range run.tb.errors() {
		if strings.Contains(e, "ignoring fail file") || strings.Contains(e, "no longer fails") || strings.Contains(e, "no longer valid") {
			res.violate(sc, "c17/file-problem-is-an-error", what+": an unusable fail file was reported as an ERROR of the test (it must be ignored with a log line): "+clip(e, 300), map[string]any{"tb": run.tb.brief()})
			return
		}
	}
}

func c17Run(t *testing.T, sc Scenario, res *Result) {
	defer os.RemoveAll("testdata")
	os.RemoveAll("testdata")
	if sc.Family == "many-empty-files" {
		self, _ := os.Executable()
		cmd := exec.Command(self, "-test.run", "^TestManyEmptyFilesChild$", "-test.timeout", "120s", "-test.v", "-rapid.checks", "20", "-rapid.nofailfile")
		cmd.Env = append(os.Environ(), "C17_MANY_EMPTY=1")
		out, _ := cmd.CombinedOutput()
		text := string(out)
		res.inc("checks_run")
		res.nontrivial("many-empty-files")
		switch {
		case !strings.Contains(text, "MANY-EMPTY-CHILD-RAN") || strings.Contains(text, "test timed out"):
			res.inconclusive("many-empty-files child did not run: " + clip(text, 300))
		case strings.Count(text, "ignoring fail file") != 800:
			res.violate(sc, "c17/many-empty-log", fmt.Sprintf("800 unusable fail files (empty, directories, binary, text) but %d 'ignoring fail file' log lines: %s", strings.Count(text, "ignoring fail file"), clip(text[len(text)*2/3:], 400)), nil)
		case !strings.Contains(text, "failed after 0 tests: the saved test case still fails"):
			res.violate(sc, "c17/many-empty-verdict", "with 800 unusable fail files in front of it (and 128 file descriptors), the usable fail file was not replayed: "+clip(text[len(text)*2/3:], 500), nil)
		default:
			res.inc("many_empty_files_children")
		}
		return
	}
	if sc.Family == "slow-stale-file" {
		self, _ := os.Executable()
		seed := fmt.Sprint(sc.Seed%1000003 + 1)
		var got [2]string
		for i, mode := range []string{"0", "1"} {
			cmd := exec.Command(self, "-test.run", "^TestStaleSlowChild$", "-test.timeout", "15s", "-test.v", "-rapid.seed", seed, "-rapid.checks", "100")
			cmd.Env = append(os.Environ(), "C17_STALE="+mode)
			began := time.Now()
			out, _ := cmd.CombinedOutput()
			text := string(out)
			if time.Since(began) > 9*time.Second {
				// the machine is so busy that the child came close to its own deadline: rapid may then legitimately stop early
				res.inconclusive("stale-file child took more than 9 of its 15 seconds")
				return
			}
			m := regexp.MustCompile(`STALE-CHILD-RESULT (cases=\d+ digest=[0-9a-f]+)`).FindStringSubmatch(text)
			switch {
			case strings.Contains(text, "test timed out"):
				res.inconclusive("stale-file child hit the go test timeout")
				return
			case m == nil || !strings.Contains(text, "STALE-CHILD-RAN"):
				res.inconclusive("stale-file child did not finish: " + clip(text, 300))
				return
			}
			got[i] = m[1]
			if !strings.Contains(text, "--- PASS: TestStaleSlowChild") {
				res.violate(sc, "c17/slow-stale-verdict", "a never-failing property did not pass (stale file present: "+mode+"): "+clip(text, 400), nil)
			}
			if mode == "1" && !strings.Contains(text, "no longer fails") {
				res.violate(sc, "c17/slow-stale-log", "the stale fail file was ignored without a log line: "+clip(text, 400), nil)
			}
		}
		res.inc("checks_run")
		res.inc("slow_stale_file_children")
		res.nontrivial("slow-stale-file/" + got[0])
		if got[0] != got[1] || !strings.HasPrefix(got[0], "cases=100 ") {
			res.violate(sc, "c17/slow-stale-cases", fmt.Sprintf("under a test deadline of 15 s the random test cases differ: without the stale fail file %q, with it (replay takes 3.5 s) %q", got[0], got[1]), nil)
		}
		return
	}
	r := newRng(sc.Seed, 0xc17)
	name := fmt.Sprintf("C17_%x", sc.Seed&0xfffff)
	thrLow, thrHigh := int64(r.between(2, 50)), int64(1)<<uint(r.between(20, 50))
	failing := r.chance(1, 2) // does the property under test fail at all?
	thr := thrHigh
	if !failing {
		thr = 1<<63 - 1
	}
	extraDraws := r.intn(3)
	if sc.Family != "dir" {
		extraDraws = 0 // these families need the genuine fail file to remain usable
	}
	skipBelow := int64(0)
	body := func(thr int64) func(x *X) {
		return func(x *X) {
			v := x.draw(rapid.Int64().AsAny(), "v").(int64)
			if v > -skipBelow && v < skipBelow {
				x.skip("small values are not valid any more")
			}
			x.draw(rapid.SliceOfN(rapid.Byte(), 0, 4).AsAny(), "s")
			for i := 0; i < extraDraws; i++ {
				x.draw(rapid.Uint64().AsAny(), fmt.Sprintf("e%d", i))
			}
			if v >= thr || v <= -thr {
				x.fail(fkFatalf, 1)
			}
		}
	}
	seedFlag := fmt.Sprint(sc.Seed%1000003 + 1)
	fl := map[string]string{"rapid.seed": seedFlag, "rapid.shrinktime": "0s", "rapid.checks": "60", "rapid.nofailfile": "true"}

	// a genuine fail file from an older version of the test (lower threshold, fewer draws)
	savedExtra := extraDraws
	extraDraws = 0
	gen := runBody(body(thrLow), runOpts{name: name, flags: map[string]string{"rapid.seed": seedFlag, "rapid.shrinktime": "200ms"}})
	extraDraws = savedExtra
	genFiles, _, _ := listFailDir(name)
	if len(genFiles) != 1 {
		res.inconclusive("could not produce a genuine fail file: " + clip(gen.rp.Raw, 100))
		return
	}
	valid, _ := os.ReadFile(genFiles[0])
	if sc.Family == "version" {
		// fail files written by another rapid version are ignored even when their test case would still fail
		hdrLine := func(content []byte) (int, []string) {
			lines := strings.Split(string(content), "\n")
			for i, l := range lines {
				if !strings.HasPrefix(l, "#") && strings.TrimSpace(l) != "" {
					return i, lines
				}
			}
			return 0, lines
		}
		os.RemoveAll("testdata")
		base := runBody(body(thrLow), runOpts{name: name, flags: fl})
		ver := rapidVersion()
		others := []string{ver + ".1", ver + "-rc1", strings.TrimPrefix(ver, "v"), "v0.0.1", "v99.0.0", ver[:len(ver)-1], ver + "0", "V" + ver[1:], " " + ver}
		if i := strings.LastIndex(ver, "."); i > 0 {
			others = append(others, ver[:i], ver[:i+1]+"0"+ver[i+1:])
		}
		n := r.between(1, 3)
		os.MkdirAll(failDir(name), 0o775)
		var planted []string
		for k := 0; k < n; k++ {
			h, lines := hdrLine(valid)
			ov := pick(r, others)
			if strings.TrimSpace(ov) == ver {
				continue
			}
			lines[h] = ov + lines[h][strings.Index(lines[h], "#"):]
			os.WriteFile(filepath.Join(failDir(name), fmt.Sprintf("%s-2026010100000%d-%d.fail", sanitize(name), k, 200+k)), []byte(strings.Join(lines, "\n")), 0o644)
			planted = append(planted, ov)
		}
		with := runBody(body(thrLow), runOpts{name: name, flags: fl})
		res.inc("directories")
		res.inc("other_version_still_failing")
		res.count("files_planted", int64(len(planted)))
		res.nontrivial("version/" + strings.Join(planted, ","))
		if with.rp.Kind != base.rp.Kind || with.rp.M != base.rp.M || with.rp.N != base.rp.N || with.rp.Seed != base.rp.Seed {
			res.violate(sc, "c17/other-version-used", fmt.Sprintf("fail files of other versions %q changed the run: %q vs %q in an empty directory", planted, clip(with.rp.Raw, 140), clip(base.rp.Raw, 140)),
				map[string]any{"versions": planted, "with_files": with.tb.brief(), "empty_dir": base.tb.brief()})
		}
		logs := 0
		for _, l := range with.tb.logs() {
			if strings.HasPrefix(l, "[rapid] ignoring fail file") {
				logs++
			}
		}
		if logs != len(planted) {
			res.violate(sc, "c17/other-version-log", fmt.Sprintf("%d other-version files but %d 'ignoring fail file' log lines", len(planted), logs), map[string]any{"versions": planted, "with_files": with.tb.brief()})
		}
		return
	}
	if sc.Family == "usable-among-others" {
		// the directory holds ONE usable, still failing fail file and other files around it: that file's test case is
		// what Check must report ("failed after 0 tests", its draws, its message) whatever else is lying there
		os.RemoveAll("testdata")
		dir := failDir(name)
		os.MkdirAll(dir, 0o775)
		fname := func(ts string) string { return filepath.Join(dir, fmt.Sprintf("%s-%s-77.fail", sanitize(name), ts)) }
		lines := strings.Split(string(valid), "\n")
		hdr := 0
		for i, l := range lines {
			if !strings.HasPrefix(l, "#") && strings.TrimSpace(l) != "" {
				hdr = i
				break
			}
		}
		variant := []string{"same-words-other-version-first", "passing-file-after", "extra-words", "garbage-after"}[int(mix(sc.Seed, 0x17a)%4)]
		usable := fname("20260101000000")
		content := valid
		switch variant {
		case "same-words-other-version-first":
			ol := append([]string(nil), lines...)
			ol[hdr] = "v0.0.1" + ol[hdr][strings.Index(ol[hdr], "#"):]
			os.WriteFile(fname("20250101000000"), []byte(strings.Join(ol, "\n")), 0o644)
		case "passing-file-after":
			writeFailFile(name, "20270101000000-78", rapidVersion(), 1, []uint64{0, 0, 0, 0, 0, 0}, "passes")
		case "extra-words":
			content = []byte(strings.TrimRight(string(valid), "\n") + "\n0x5\n0x6\n")
		case "garbage-after":
			os.WriteFile(fname("20270101000000"), []byte("garbage"), 0o644)
		}
		os.WriteFile(usable, content, 0o644)
		run := runBody(body(thrLow), runOpts{name: name, flags: fl})
		res.inc("directories")
		res.inc("usable_among_others:" + variant)
		res.nontrivial("usable-among-others/" + variant + fmt.Sprint(thrLow))
		detail := map[string]any{"variant": variant, "usable_file": usable, "tb": run.tb.brief(), "original_report": clip(gen.rp.Raw, 200)}
		if (run.rp.Kind != "failed" && run.rp.Kind != "panic") || run.rp.N != 0 || run.rp.FailFile != usable || run.rp.M != gen.rp.M {
			res.violate(sc, "c17/usable-not-used", fmt.Sprintf("a usable, still failing fail file (%s) was not what Check reported: %s", variant, clip(run.rp.Raw, 300)), detail)
			return
		}
		v := judgeReality(run, true)
		for _, pr := range v.problems {
			res.violate(sc, "c17/usable/"+firstWords(pr, 5), "usable fail file among others ("+variant+"): "+pr, detail)
		}
		return
	}
	if sc.Family == "explicit-history" {
		// the file given with -rapid.failfile changes between two Checks of one process: usable and failing first,
		// then replaced by garbage at the same path - the second Check must see the file as it is now
		os.RemoveAll("testdata")
		base := runBody(body(thrLow), runOpts{name: name, flags: fl})
		wd, _ := os.Getwd()
		other, _ := os.MkdirTemp(wd, "elsewhere")
		defer os.RemoveAll(other)
		pth := filepath.Join(other, "given.fail")
		os.WriteFile(pth, valid, 0o644)
		first := runBody(body(thrLow), runOpts{name: name, flags: flagsWith(fl, "rapid.failfile", pth)})
		junk := pick(r, [][]byte{nil, []byte("garbage"), valid[:len(valid)/3], []byte("# only a comment\n")})
		os.WriteFile(pth, junk, 0o644)
		second := runBody(body(thrLow), runOpts{name: name, flags: flagsWith(fl, "rapid.failfile", pth)})
		res.inc("directories")
		res.inc("explicit_history_runs")
		res.nontrivial(fmt.Sprintf("explicit-history/%d", len(junk)))
		if first.rp.N != 0 || (first.rp.Kind != "failed" && first.rp.Kind != "panic") {
			res.inconclusive("the usable explicit fail file did not reproduce: " + clip(first.rp.Raw, 100))
			return
		}
		c17NoFileErrors(res, sc, second, "explicit file replaced by an unusable one")
		if second.rp.Kind != base.rp.Kind || second.rp.M != base.rp.M || second.rp.N != base.rp.N || second.rp.Seed != base.rp.Seed {
			res.violate(sc, "c17/explicit-stale", fmt.Sprintf("after the explicit fail file was replaced by an unusable one the Check did not behave as without it: %q vs %q", clip(second.rp.Raw, 140), clip(base.rp.Raw, 140)),
				map[string]any{"second": second.tb.brief(), "without_file": base.tb.brief()})
		}
		return
	}
	if sc.Family == "explicit" {
		// an unusable file given with -rapid.failfile must not change what happens to the usable, still failing
		// fail file in the test's own directory (whatever the two files are called)
		plain := runBody(body(thrLow), runOpts{name: name, flags: fl})
		wd, _ := os.Getwd()
		other, _ := os.MkdirTemp(wd, "elsewhere")
		defer os.RemoveAll(other)
		bad := filepath.Join(other, filepath.Base(genFiles[0]))
		if r.chance(1, 3) {
			bad = filepath.Join(other, "unrelated.fail")
		}
		junk := valid[:r.intn(len(valid))]
		if r.chance(1, 3) {
			junk = []byte("garbage")
		}
		os.WriteFile(bad, junk, 0o644)
		with := runBody(body(thrLow), runOpts{name: name, flags: flagsWith(fl, "rapid.failfile", bad)})
		res.inc("directories")
		res.inc("explicit_unusable_plus_valid")
		res.nontrivial("explicit/" + filepath.Base(bad) + fmt.Sprint(len(junk)))
		if with.rp.FailFile == bad && len(with.log.Invs) > 0 && with.log.Invs[0].Kind == "buffer" && with.log.Invs[0].signalled() {
			// the truncation left a file that still parses and whose (shorter) test case still falsifies the property:
			// that is a usable fail file, and the failure reported from it has to be real
			res.inc("explicit_truncation_still_usable")
			v := judgeReality(with, true)
			for _, pr := range v.problems {
				res.violate(sc, "c17/explicit-usable/"+firstWords(pr, 5), "a truncated file given with -rapid.failfile was used as a fail file but: "+pr, map[string]any{"explicit": bad, "with_flag": with.tb.brief()})
			}
			return
		}
		c17NoFileErrors(res, sc, with, "unusable -rapid.failfile next to a usable file")
		if len(with.tb.errors()) != len(plain.tb.errors()) {
			res.violate(sc, "c17/explicit-errors", fmt.Sprintf("an unusable -rapid.failfile changed the number of errors reported to the test: %d vs %d without the flag", len(with.tb.errors()), len(plain.tb.errors())), map[string]any{"explicit": bad, "with_flag": with.tb.brief(), "without_flag": plain.tb.brief()})
		}
		if with.rp.Kind != plain.rp.Kind || with.rp.M != plain.rp.M || with.rp.N != plain.rp.N {
			res.violate(sc, "c17/explicit-verdict", fmt.Sprintf("an unusable -rapid.failfile changed the verdict: %q vs %q without the flag", clip(with.rp.Raw+with.rp.Kind, 160), clip(plain.rp.Raw+plain.rp.Kind, 160)),
				map[string]any{"explicit": bad, "directory_file": genFiles[0], "with_flag": with.tb.brief(), "without_flag": plain.tb.brief()})
		}
		return
	}
	os.RemoveAll("testdata")

	// baseline: same Check, same seed, empty directory
	base := runBody(body(thr), runOpts{name: name, flags: fl})

	// plant K unusable files
	var planted []string
	expectLogs := 0
	usable := false
	dir := failDir(name)
	os.MkdirAll(dir, 0o775)
	for k := 0; k < sc.K; k++ {
		kind := pick(r, c17Kinds)
		path := filepath.Join(dir, fmt.Sprintf("%s-2026010100000%d-%d.fail", sanitize(name), k, 100+k))
		content := append([]byte(nil), valid...)
		lines := strings.Split(string(valid), "\n")
		hdr := 0
		for i, l := range lines {
			if !strings.HasPrefix(l, "#") && strings.TrimSpace(l) != "" {
				hdr = i
				break
			}
		}
		expectLogs++
		switch kind {
		case "empty":
			content = nil
		case "random-bytes":
			content = make([]byte, r.between(1, 300))
			for i := range content {
				content[i] = byte(r.next())
			}
		case "directory":
			os.MkdirAll(path, 0o775)
			planted = append(planted, kind)
			continue
		case "dangling-symlink":
			os.Symlink(filepath.Join(dir, "does-not-exist"), path)
			planted = append(planted, kind)
			continue
		case "other-version":
			lines[hdr] = "v0.0.1" + lines[hdr][strings.Index(lines[hdr], "#"):]
			content = []byte(strings.Join(lines, "\n"))
		case "missing-hash":
			lines[hdr] = strings.ReplaceAll(lines[hdr], "#", "")
			content = []byte(strings.Join(lines, "\n"))
		case "extra-hash":
			lines[hdr] = lines[hdr] + "#7"
			content = []byte(strings.Join(lines, "\n"))
		case "bad-seed":
			lines[hdr] = lines[hdr][:strings.Index(lines[hdr], "#")+1] + "12x4"
			content = []byte(strings.Join(lines, "\n"))
		case "huge-seed":
			lines[hdr] = lines[hdr][:strings.Index(lines[hdr], "#")+1] + "99999999999999999999999999"
			content = []byte(strings.Join(lines, "\n"))
		case "bad-word":
			content = []byte(strings.Join(lines, "\n") + "\n0xzz")
		case "huge-word":
			content = []byte(strings.Join(lines, "\n") + "\n0x1ffffffffffffffff")
		case "one-char-word":
			content = []byte(strings.Join(lines[:hdr+1], "\n") + "\n" + pick(r, []string{"0", "7", "x", "-", "#"}))
			if strings.HasSuffix(string(content), "#") {
				expectLogs += 0 // a trailing comment line: the file has a header only
			}
		case "negative-word":
			content = []byte(strings.Join(lines, "\n") + "\n-5")
		case "spaces":
			content = []byte("   \n\t\n" + strings.Join(lines[:hdr], "\n") + "\n \t " + "\n")
		case "truncated":
			content = content[:r.intn(len(content))]
		case "bitflip":
			i := r.intn(len(content))
			content[i] ^= 1 << uint(r.intn(8))
		case "only-comments":
			content = []byte("# nothing\n# here\n")
		case "now-passes-no-comments":
			content = []byte(strings.Join(lines[hdr:], "\n"))
		case "overrun-no-comments":
			content = []byte(lines[hdr])
		case "now-passes-blank-first":
			content = []byte("\n" + strings.Join(lines[hdr:], "\n") + "\n")
		case "now-passes":
			// the genuine file: with the higher threshold its test case passes (or, with extra draws, overruns)
		case "overrun":
			content = []byte(strings.Join(lines[:hdr+1], "\n")) // header, no words
		case "skips-now":
			skipBelow = thrLow * 4
		}
		planted = append(planted, kind)
		if err := os.WriteFile(path, content, 0o644); err != nil {
			panic(err)
		}
		_ = usable
	}
	// skips-now changes the property: redo the baseline with the same property
	if skipBelow > 0 {
		os.Rename("testdata", "testdata.off")
		base = runBody(body(thr), runOpts{name: name, flags: fl})
		os.Rename("testdata.off", "testdata")
	}
	with := runBody(body(thr), runOpts{name: name, flags: fl})
	res.inc("directories")
	res.count("files_planted", int64(len(planted)))
	for _, k := range planted {
		res.inc("kind:" + k)
	}
	res.nontrivial(strings.Join(planted, ",") + fmt.Sprint(failing))
	detail := map[string]any{"planted": planted, "property_fails": failing, "with_files": with.tb.brief(), "empty_dir": base.tb.brief()}
	if with.tb.escaped != nil {
		res.violate(sc, "c17/crash", fmt.Sprintf("Check crashed on an unusable fail file: %v", with.tb.escaped), detail)
		return
	}
	// random test cases and verdict must be those of the empty directory – unless a planted (mutated) file
	// still parses and still falsifies the property, which makes it a usable fail file
	var randWith, randBase []string
	bufFailed := false
	for _, inv := range with.log.Invs {
		if inv.Kind == "random" {
			randWith = append(randWith, inv.phase()+inv.drawsKey())
		} else if len(randWith) == 0 && inv.signalled() {
			bufFailed = true
		}
	}
	for _, inv := range base.log.Invs {
		if inv.Kind == "random" {
			randBase = append(randBase, inv.phase()+inv.drawsKey())
		}
	}
	if bufFailed && with.rp.N == 0 && (with.rp.Kind == "failed" || with.rp.Kind == "panic") {
		res.inc("mutated_file_still_usable")
		v := judgeReality(with, true)
		for _, pr := range v.problems {
			res.violate(sc, "c17/usable/"+firstWords(pr, 5), "a planted file was used as a fail file but: "+pr, detail)
		}
		return
	}
	if strings.Join(randWith, "\n") != strings.Join(randBase, "\n") {
		res.violate(sc, "c17/random-cases", fmt.Sprintf("the random test cases differ from the run in an empty directory (%d vs %d random invocations)", len(randWith), len(randBase)), detail)
	}
	if with.rp.Kind != base.rp.Kind || with.rp.M != base.rp.M || with.rp.N != base.rp.N || with.rp.Seed != base.rp.Seed || with.rp.Passed != base.rp.Passed {
		res.violate(sc, "c17/verdict", fmt.Sprintf("verdict changed by unusable fail files: %q vs %q in an empty directory", clip(with.rp.Raw, 150), clip(base.rp.Raw, 150)), detail)
	}
	// one log line per unusable file
	logs := 0
	for _, l := range with.tb.logs() {
		if strings.HasPrefix(l, "[rapid] ignoring fail file") || (strings.HasPrefix(l, "[rapid] fail file ") && (strings.Contains(l, "no longer valid") || strings.Contains(l, "no longer fails"))) {
			logs++
		}
	}
	res.count("ignore_log_lines", int64(logs))
	if logs != len(planted) {
		res.violate(sc, "c17/log-lines", fmt.Sprintf("%d unusable fail files but %d 'ignoring'/'no longer' log lines", len(planted), logs), detail)
	}
	if res.wantSample() && r.chance(1, 6) {
		res.sample(map[string]any{"planted": planted, "property_fails": failing, "ignore_log_lines": logs, "verdict": clip(with.rp.Raw+with.rp.Kind, 100)})
	}
}
