package harness

// Core of the runtime-monitoring harness: process entry point, scenario /
// result plumbing, deterministic PRNG, recording fake TB, flag handling and
// value canonicalisation.  See /verif/DESIGN.md §2.

import (
	"context"
	"encoding/json"
	"flag"
	"fmt"
	"math"
	"os"
	"reflect"
	"runtime"
	"runtime/debug"
	"sort"
	"strconv"
	"strings"
	"sync"
	"sync/atomic"
	"testing"
	"time"

	"pgregory.net/rapid"
)

// ---------------------------------------------------------------------------
// command line

var (
	fProp    = flag.String("verif.prop", "", "property id (C01..C18)")
	fTier    = flag.String("verif.tier", "quick", "quick | thorough")
	fSeed    = flag.Uint64("verif.seed", 1, "VERIF_SEED")
	fShard   = flag.Int("verif.shard", 0, "shard index")
	fNShards = flag.Int("verif.nshards", 1, "number of shards")
	fOut     = flag.String("verif.out", "", "result file (JSON)")
	fReplay  = flag.String("verif.replay", "", "replay file written by an earlier run")
	fChild   = flag.String("verif.child", "", "child mode (C16 crash child etc.)")
	fScale   = flag.Float64("verif.scale", 1, "workload multiplier (experiments only)")
	fScratch = flag.String("verif.scratch", "", "scratch directory (cwd for fail files)")
)

func init() {
	// C16 child: all file-system calls of a save must come from one thread so
	// that strace's per-thread injection counters are deterministic.
	runtime.LockOSThread()
}

func TestMain(m *testing.M) {
	flag.Parse()
	if *fChild != "" {
		os.Exit(childMain(*fChild))
	}
	runtime.UnlockOSThread()
	os.Exit(m.Run())
}

// ---------------------------------------------------------------------------
// scenarios, violations, results

// Scenario is the unit of work and the unit of replay: everything needed to
// re-execute one monitored execution is in here (all random choices derive
// from the seeds).
type Scenario struct {
	Prop   string            `json:"property"`
	Family string            `json:"family"`
	Seed   uint64            `json:"seed"`            // program / input seed
	Flags  map[string]string `json:"flags,omitempty"` // rapid flags
	N      int               `json:"n,omitempty"`
	K      int               `json:"k,omitempty"`
	S      string            `json:"s,omitempty"`
	X      map[string]string `json:"x,omitempty"`
}

func (sc Scenario) String() string {
	b, _ := json.Marshal(sc)
	return string(b)
}

type Violation struct {
	Prop        string   `json:"property"`
	What        string   `json:"what"`
	Fingerprint string   `json:"fingerprint"`
	Scenario    Scenario `json:"scenario"`
	Detail      any      `json:"detail,omitempty"`
}

type Result struct {
	Prop          string            `json:"property"`
	Tier          string            `json:"tier"`
	Seed          uint64            `json:"seed"`
	Shard         int               `json:"shard"`
	NShards       int               `json:"nshards"`
	Counters      map[string]int64  `json:"counters"`
	Distinct      []string          `json:"distinct"`
	Samples       []any             `json:"samples"`
	Violations    []Violation       `json:"violations"`
	NViolations   int               `json:"n_violations"`
	Inconclusive  []string          `json:"inconclusive"`
	NInconclusive int               `json:"n_inconclusive"`
	Notes         []string          `json:"notes,omitempty"`
	Digests       map[string]string `json:"digests,omitempty"` // compared across processes by the runner
	WallS         float64           `json:"wall_s"`
	Done          bool              `json:"done"`

	mu       sync.Mutex
	distinct map[uint64]struct{}
	cur      Scenario
}

const (
	maxViolationsKept = 40
	maxSamplesKept    = 6
	maxDistinctKept   = 400000
)

func newResult() *Result {
	return &Result{
		Prop: *fProp, Tier: *fTier, Seed: *fSeed, Shard: *fShard, NShards: *fNShards,
		Counters: map[string]int64{}, distinct: map[uint64]struct{}{},
	}
}

func (r *Result) count(key string, n int64) {
	r.mu.Lock()
	r.Counters[key] += n
	r.mu.Unlock()
}

func (r *Result) inc(key string) { r.count(key, 1) }

func (r *Result) max(key string, v int64) {
	r.mu.Lock()
	if v > r.Counters[key] {
		r.Counters[key] = v
	}
	r.mu.Unlock()
}

// nontrivial registers one distinct non-trivial case (identified by key).
func (r *Result) nontrivial(key string) {
	h := hashStr(key)
	r.mu.Lock()
	if len(r.distinct) < maxDistinctKept {
		r.distinct[h] = struct{}{}
	}
	r.mu.Unlock()
}

func (r *Result) sample(v any) {
	r.mu.Lock()
	if len(r.Samples) < maxSamplesKept {
		r.Samples = append(r.Samples, v)
	}
	r.mu.Unlock()
}

func (r *Result) wantSample() bool {
	r.mu.Lock()
	defer r.mu.Unlock()
	return len(r.Samples) < maxSamplesKept
}

func (r *Result) violate(sc Scenario, fingerprint string, what string, detail any) {
	r.mu.Lock()
	defer r.mu.Unlock()
	r.NViolations++
	if len(r.Violations) < maxViolationsKept {
		r.Violations = append(r.Violations, Violation{Prop: sc.Prop, What: what, Fingerprint: fingerprint, Scenario: sc, Detail: detail})
	}
}

func (r *Result) inconclusive(why string) {
	r.mu.Lock()
	defer r.mu.Unlock()
	r.NInconclusive++
	if len(r.Inconclusive) < 20 {
		r.Inconclusive = append(r.Inconclusive, why)
	}
}

// digest records a value that must be identical in every process that computes it.
func (r *Result) digest(key, val string) {
	r.mu.Lock()
	defer r.mu.Unlock()
	if r.Digests == nil {
		r.Digests = map[string]string{}
	}
	if old, ok := r.Digests[key]; ok && old != val {
		r.Digests[key] = old + "|" + val // in-process disagreement is kept visible
		return
	}
	r.Digests[key] = val
}

func (r *Result) note(format string, a ...any) {
	r.mu.Lock()
	defer r.mu.Unlock()
	if len(r.Notes) < 50 {
		r.Notes = append(r.Notes, fmt.Sprintf(format, a...))
	}
}

func (r *Result) write(path string) {
	r.mu.Lock()
	defer r.mu.Unlock()
	r.Distinct = r.Distinct[:0]
	for h := range r.distinct {
		r.Distinct = append(r.Distinct, strconv.FormatUint(h, 36))
	}
	sort.Strings(r.Distinct)
	b, err := json.Marshal(r)
	if err != nil {
		panic(err)
	}
	tmp := path + ".tmp"
	if err := os.WriteFile(tmp, b, 0o644); err != nil {
		panic(err)
	}
	if err := os.Rename(tmp, path); err != nil {
		panic(err)
	}
}

// monitor is what each property file registers.
type monitor struct {
	// scenarios enumerates this shard's scenarios (deterministic in seed/tier).
	scenarios func(cfg runCfg) []Scenario
	// run executes one scenario and reports into res.  t is the real
	// *testing.T of TestVerif (for monitors needing sub-tests).
	run func(t *testing.T, sc Scenario, res *Result)
	// finish, if set, runs once after all scenarios (statistical monitors).
	finish func(cfg runCfg, res *Result)
	// scenarioLimit bounds one scenario (0 = 300s): when exceeded the shard dumps its goroutines and exits
	// without a result, the runner then re-runs that scenario alone (only a repeatable hang is a violation)
	scenarioLimit time.Duration
}

type runCfg struct {
	tier    string
	seed    uint64
	shard   int
	nshards int
	scale   float64
}

func (c runCfg) thorough() bool { return c.tier == "thorough" }

// n scales a quick-tier count: thorough multiplies by mult.
func (c runCfg) n(quick int, mult int) int {
	v := float64(quick)
	if c.thorough() {
		v *= float64(mult)
	}
	v *= c.scale
	if v < 1 {
		v = 1
	}
	return int(v)
}

// mine reports whether global scenario index i belongs to this shard.
func (c runCfg) mine(i int) bool { return i%c.nshards == c.shard }

var monitors = map[string]*monitor{}

func TestVerif(t *testing.T) {
	if *fProp == "" && *fReplay == "" {
		t.Skip("no -verif.prop")
	}
	if *fScratch != "" {
		if err := os.Chdir(*fScratch); err != nil {
			t.Fatal(err)
		}
	}
	start := time.Now()

	if *fReplay != "" {
		b, err := os.ReadFile(*fReplay)
		if err != nil {
			t.Fatal(err)
		}
		var v Violation
		if err := json.Unmarshal(b, &v); err != nil {
			t.Fatal(err)
		}
		*fProp = v.Scenario.Prop
		mon := monitors[*fProp]
		if mon == nil {
			t.Fatalf("unknown property %q", *fProp)
		}
		res := newResult()
		fmt.Printf("REPLAY scenario %s\nrecorded complaint: %s\n", v.Scenario, v.What)
		mon.run(t, v.Scenario, res)
		if res.NViolations == 0 {
			fmt.Printf("REPLAY-RESULT held (no violation reproduced)\n")
		}
		for _, nv := range res.Violations {
			d, _ := json.MarshalIndent(nv.Detail, "", " ")
			fmt.Printf("REPLAY-RESULT violation: %s\n%s\n", nv.What, d)
		}
		if *fOut != "" {
			res.Done = true
			res.write(*fOut)
		}
		return
	}

	mon := monitors[*fProp]
	if mon == nil {
		t.Fatalf("unknown property %q", *fProp)
	}
	cfg := runCfg{tier: *fTier, seed: *fSeed, shard: *fShard, nshards: *fNShards, scale: *fScale}
	if *fTier == "quick" {
		maxInvsPerCheck = 250000
	}
	res := newResult()
	scs := mon.scenarios(cfg)
	var lastProgress atomic.Int64
	lastProgress.Store(time.Now().UnixNano())
	limit := mon.scenarioLimit
	if limit == 0 {
		limit = 900 * time.Second
	}
	go func() {
		for {
			time.Sleep(time.Second)
			if time.Since(time.Unix(0, lastProgress.Load())) > limit {
				fmt.Fprintf(os.Stderr, "WATCHDOG: a scenario of %s is running for more than %v; goroutine dump follows\n", *fProp, limit)
				buf := make([]byte, 1<<20)
				os.Stderr.Write(buf[:runtime.Stack(buf, true)])
				os.Exit(3)
			}
		}
	}()
	for _, sc := range scs {
		lastProgress.Store(time.Now().UnixNano())
		sc.Prop = *fProp
		res.cur = sc
		if *fOut != "" {
			// scenario in progress: lets the runner re-run it alone if this process hangs or dies
			b, _ := json.Marshal(sc)
			_ = os.WriteFile(*fOut+".progress", b, 0o644)
		}
		mon.run(t, sc, res)
		res.inc("scenarios")
		if p := os.Getenv("VERIF_FAKE_WATCHDOG_ONCE"); p != "" && *fShard == 2 {
			// self-test of the runner's second-chance path: shard 2 dies like a tripped watchdog, once
			if _, err := os.Stat(p); err != nil {
				_ = os.WriteFile(p, []byte("x"), 0o644)
				os.Exit(3)
			}
		}
	}
	if mon.finish != nil {
		mon.finish(cfg, res)
	}
	if len(res.Samples) == 0 && len(scs) > 0 {
		// always show at least what a scenario of this run looked like
		res.sample(map[string]any{"scenario": scs[len(scs)/2], "note": "no richer sample was selected in this shard"})
	}
	res.WallS = time.Since(start).Seconds()
	res.Done = true
	if *fOut != "" {
		res.write(*fOut)
		_ = os.Remove(*fOut + ".progress")
	} else {
		b, _ := json.MarshalIndent(res, "", " ")
		fmt.Println(string(b))
	}
}

// ---------------------------------------------------------------------------
// deterministic PRNG (splitmix64) – every random choice of the harness

type rng struct{ s uint64 }

func newRng(seeds ...uint64) *rng { return &rng{s: mix(seeds...)} }

func (r *rng) next() uint64 {
	r.s += 0x9e3779b97f4a7c15
	z := r.s
	z = (z ^ (z >> 30)) * 0xbf58476d1ce4e5b9
	z = (z ^ (z >> 27)) * 0x94d049bb133111eb
	return z ^ (z >> 31)
}

func (r *rng) intn(n int) int {
	if n <= 0 {
		return 0
	}
	return int(r.next() % uint64(n))
}

// between returns a value in [lo, hi].
func (r *rng) between(lo, hi int) int { return lo + r.intn(hi-lo+1) }

func (r *rng) chance(num, den int) bool { return r.intn(den) < num }

func (r *rng) fork() *rng { return &rng{s: r.next()} }

func pick[T any](r *rng, xs []T) T { return xs[r.intn(len(xs))] }

func mix(seeds ...uint64) uint64 {
	h := uint64(0x243f6a8885a308d3)
	for _, s := range seeds {
		h ^= s + 0x9e3779b97f4a7c15 + (h << 6) + (h >> 2)
		h *= 0xff51afd7ed558ccd
		h ^= h >> 33
	}
	return h
}

func hashStr(s string) uint64 {
	h := uint64(14695981039346656037)
	for i := 0; i < len(s); i++ {
		h ^= uint64(s[i])
		h *= 1099511628211
	}
	return h
}

func hashWords(ws []uint64) uint64 {
	h := uint64(14695981039346656037)
	for _, w := range ws {
		for i := 0; i < 8; i++ {
			h ^= (w >> (8 * i)) & 0xff
			h *= 1099511628211
		}
	}
	return h ^ uint64(len(ws))
}

// ---------------------------------------------------------------------------
// recording fake TB

type tbEvent struct {
	Kind string `json:"kind"` // log error fail failnow skip
	Text string `json:"text,omitempty"`
}

type recTB struct {
	mu       sync.Mutex
	name     string
	events   []tbEvent
	failed   bool
	failNow  bool
	returned bool // Check returned normally
	escaped  any  // panic that escaped Check
	escStack string
	maxText  int
}

func newTB(name string) *recTB { return &recTB{name: name, maxText: 1 << 22} }

func (r *recTB) add(kind, text string) {
	if len(text) > r.maxText {
		text = text[:r.maxText]
	}
	r.events = append(r.events, tbEvent{kind, text})
}

func (r *recTB) Helper()      {}
func (r *recTB) Name() string { return r.name }
func (r *recTB) Logf(f string, a ...any) {
	s := fmt.Sprintf(f, a...)
	r.mu.Lock()
	r.add("log", s)
	r.mu.Unlock()
}
func (r *recTB) Log(a ...any) {
	s := fmt.Sprint(a...)
	r.mu.Lock()
	r.add("log", s)
	r.mu.Unlock()
}
func (r *recTB) Errorf(f string, a ...any) {
	s := fmt.Sprintf(f, a...)
	r.mu.Lock()
	r.add("error", s)
	r.failed = true
	r.mu.Unlock()
}
func (r *recTB) Error(a ...any) {
	s := fmt.Sprint(a...)
	r.mu.Lock()
	r.add("error", s)
	r.failed = true
	r.mu.Unlock()
}
func (r *recTB) Fatalf(f string, a ...any) { r.Errorf(f, a...); r.FailNow() }
func (r *recTB) Fatal(a ...any)            { r.Error(a...); r.FailNow() }
func (r *recTB) Fail() {
	r.mu.Lock()
	r.add("fail", "")
	r.failed = true
	r.mu.Unlock()
}
func (r *recTB) FailNow() {
	r.mu.Lock()
	r.add("failnow", "")
	r.failed = true
	r.failNow = true
	r.mu.Unlock()
	runtime.Goexit()
}
func (r *recTB) Failed() bool {
	r.mu.Lock()
	defer r.mu.Unlock()
	return r.failed
}
func (r *recTB) Skipf(f string, a ...any) { r.skip(fmt.Sprintf(f, a...)) }
func (r *recTB) Skip(a ...any)            { r.skip(fmt.Sprint(a...)) }
func (r *recTB) SkipNow()                 { r.skip("") }
func (r *recTB) skip(s string) {
	r.mu.Lock()
	r.add("skip", s)
	r.mu.Unlock()
	runtime.Goexit()
}

func (r *recTB) errors() []string {
	r.mu.Lock()
	defer r.mu.Unlock()
	var out []string
	for _, e := range r.events {
		if e.Kind == "error" {
			out = append(out, e.Text)
		}
	}
	return out
}

func (r *recTB) logs() []string {
	r.mu.Lock()
	defer r.mu.Unlock()
	var out []string
	for _, e := range r.events {
		if e.Kind == "log" {
			out = append(out, e.Text)
		}
	}
	return out
}

func (r *recTB) snapshot() []tbEvent {
	r.mu.Lock()
	defer r.mu.Unlock()
	return append([]tbEvent(nil), r.events...)
}

// brief returns a bounded dump for violation details.
func (r *recTB) brief() []string {
	ev := r.snapshot()
	var out []string
	for i, e := range ev {
		if i >= 30 {
			out = append(out, fmt.Sprintf("... %d more events", len(ev)-i))
			break
		}
		out = append(out, e.Kind+": "+clip(e.Text, 400))
	}
	return out
}

func clip(s string, n int) string {
	if len(s) <= n {
		return s
	}
	return s[:n] + fmt.Sprintf("...(+%d bytes)", len(s)-n)
}

// runCheck runs rapid.Check(tb, prop) in its own goroutine (FailNow is
// runtime.Goexit, the semantics of testing.T) and records whether Check
// returned, ended via FailNow, or let a panic escape.
// hangLimit is the in-process watchdog for one call into rapid: it only speeds up the detection of a hang.
// When it fires the shard dumps its goroutines and exits without a result, and the runner re-runs the
// scenario alone; only a repeatable hang is reported as a violation.
// (It must be well above maxWallPerCheck, the budget after which a long but progressing Check is cut off
// gracefully and counted as inconclusive.)
const hangLimit = 420 * time.Second

func waitOrDie(done <-chan struct{}, what string) {
	select {
	case <-done:
	case <-time.After(hangLimit):
		fmt.Fprintf(os.Stderr, "WATCHDOG: %s did not return within %v; goroutine dump follows\n", what, hangLimit)
		buf := make([]byte, 1<<20)
		os.Stderr.Write(buf[:runtime.Stack(buf, true)])
		os.Exit(3)
	}
}

// ctxTB is a recTB that, like *testing.T since Go 1.24, offers a Context of its own (rapid derives the
// contexts of its test cases from it)
type ctxTB struct {
	*recTB
	ctx context.Context
}

func (c ctxTB) Context() context.Context { return c.ctx }

func runCheck(tb *recTB, prop func(*rapid.T)) { runCheckAs(tb, tb, prop) }

func runCheckAs(tb *recTB, as rapid.TB, prop func(*rapid.T)) {
	done := make(chan struct{})
	go func() {
		defer close(done)
		defer func() {
			if p := recover(); p != nil {
				tb.mu.Lock()
				tb.escaped = p
				tb.escStack = string(debug.Stack())
				tb.mu.Unlock()
			}
		}()
		rapid.Check(as, prop)
		tb.mu.Lock()
		tb.returned = true
		tb.mu.Unlock()
	}()
	waitOrDie(done, "rapid.Check")
}

// ---------------------------------------------------------------------------
// rapid flags (process global)

var flagDefaults = map[string]string{
	"rapid.checks":     "100",
	"rapid.steps":      "30",
	"rapid.failfile":   "",
	"rapid.nofailfile": "false",
	"rapid.seed":       "0",
	"rapid.log":        "false",
	"rapid.v":          "false",
	"rapid.debug":      "false",
	"rapid.debugvis":   "false",
	"rapid.shrinktime": "30s",
}

func setFlags(kv map[string]string) {
	for k, v := range flagDefaults {
		if nv, ok := kv[k]; ok {
			v = nv
		}
		if err := flag.Set(k, v); err != nil {
			panic(fmt.Sprintf("flag.Set(%s,%s): %v", k, v, err))
		}
	}
	for k := range kv {
		if _, ok := flagDefaults[k]; !ok {
			panic("unknown rapid flag " + k)
		}
	}
}

func flagsWith(base map[string]string, kv ...string) map[string]string {
	m := map[string]string{}
	for k, v := range base {
		m[k] = v
	}
	for i := 0; i+1 < len(kv); i += 2 {
		m[kv[i]] = kv[i+1]
	}
	return m
}

// ---------------------------------------------------------------------------
// canonical form of drawn values (pointers dereferenced, map keys sorted,
// floats by bit pattern) – equality of canonical strings is value equality.

func canon(v any) string {
	var b strings.Builder
	canonV(&b, reflect.ValueOf(v), 0)
	return b.String()
}

func canonV(b *strings.Builder, v reflect.Value, depth int) {
	if !v.IsValid() {
		b.WriteString("nil")
		return
	}
	if depth > 40 {
		b.WriteString("<deep>")
		return
	}
	switch v.Kind() {
	case reflect.Bool:
		if v.Bool() {
			b.WriteString("true")
		} else {
			b.WriteString("false")
		}
	case reflect.Int, reflect.Int8, reflect.Int16, reflect.Int32, reflect.Int64:
		b.WriteString(strconv.FormatInt(v.Int(), 10))
	case reflect.Uint, reflect.Uint8, reflect.Uint16, reflect.Uint32, reflect.Uint64, reflect.Uintptr:
		b.WriteString(strconv.FormatUint(v.Uint(), 10))
		b.WriteByte('u')
	case reflect.Float32:
		fmt.Fprintf(b, "f32:%08x", math.Float32bits(float32(v.Float())))
	case reflect.Float64:
		fmt.Fprintf(b, "f64:%016x", math.Float64bits(v.Float()))
	case reflect.String:
		b.WriteString(strconv.Quote(v.String()))
	case reflect.Slice:
		if v.IsNil() {
			b.WriteString("[]")
			return
		}
		fallthrough
	case reflect.Array:
		b.WriteByte('[')
		for i := 0; i < v.Len(); i++ {
			if i > 0 {
				b.WriteByte(',')
			}
			canonV(b, v.Index(i), depth+1)
		}
		b.WriteByte(']')
	case reflect.Map:
		keys := make([]string, 0, v.Len())
		vals := map[string]reflect.Value{}
		it := v.MapRange()
		for it.Next() {
			var kb strings.Builder
			canonV(&kb, it.Key(), depth+1)
			keys = append(keys, kb.String())
			vals[kb.String()] = it.Value()
		}
		sort.Strings(keys)
		b.WriteString("map{")
		for i, k := range keys {
			if i > 0 {
				b.WriteByte(',')
			}
			b.WriteString(k)
			b.WriteByte(':')
			canonV(b, vals[k], depth+1)
		}
		b.WriteByte('}')
	case reflect.Pointer:
		if v.IsNil() {
			b.WriteString("nilptr")
		} else {
			b.WriteByte('&')
			canonV(b, v.Elem(), depth+1)
		}
	case reflect.Interface:
		if v.IsNil() {
			b.WriteString("nil")
		} else {
			canonV(b, v.Elem(), depth+1)
		}
	case reflect.Struct:
		b.WriteString(v.Type().Name())
		b.WriteByte('{')
		for i := 0; i < v.NumField(); i++ {
			if i > 0 {
				b.WriteByte(',')
			}
			canonV(b, v.Field(i), depth+1)
		}
		b.WriteByte('}')
	default:
		fmt.Fprintf(b, "<%s>", v.Kind())
	}
}

// intView maps a drawn value to an integer that program predicates can
// threshold on (value for integers, length for collections, ...).
func intView(v any) (int64, bool) {
	rv := reflect.ValueOf(v)
	if !rv.IsValid() {
		return 0, false
	}
	switch rv.Kind() {
	case reflect.Bool:
		if rv.Bool() {
			return 1, true
		}
		return 0, true
	case reflect.Int, reflect.Int8, reflect.Int16, reflect.Int32, reflect.Int64:
		return rv.Int(), true
	case reflect.Uint, reflect.Uint8, reflect.Uint16, reflect.Uint32, reflect.Uint64, reflect.Uintptr:
		u := rv.Uint()
		if u > math.MaxInt64 {
			return math.MaxInt64, true
		}
		return int64(u), true
	case reflect.Float32, reflect.Float64:
		f := rv.Float()
		if f > 1e18 {
			return math.MaxInt64, true
		}
		if f < -1e18 {
			return math.MinInt64, true
		}
		return int64(f), true
	case reflect.String, reflect.Slice, reflect.Map, reflect.Array:
		return int64(rv.Len()), true
	case reflect.Pointer:
		if rv.IsNil() {
			return 0, true
		}
		return 1, true
	}
	return 0, false
}

func wordsEqual(a, b []uint64) bool {
	if len(a) != len(b) {
		return false
	}
	for i := range a {
		if a[i] != b[i] {
			return false
		}
	}
	return true
}

// shortlex comparison of bitstreams, written independently of rapid's compareData.
func shortlexCmp(a, b []uint64) int {
	switch {
	case len(a) < len(b):
		return -1
	case len(a) > len(b):
		return 1
	}
	for i := 0; i < len(a); i++ {
		if a[i] != b[i] {
			if a[i] < b[i] {
				return -1
			}
			return 1
		}
	}
	return 0
}

func wordsStr(ws []uint64) string {
	var b strings.Builder
	b.WriteByte('[')
	for i, w := range ws {
		if i > 0 {
			b.WriteByte(' ')
		}
		if i >= 64 {
			fmt.Fprintf(&b, "...+%d", len(ws)-i)
			break
		}
		fmt.Fprintf(&b, "%#x", w)
	}
	b.WriteByte(']')
	return b.String()
}
