package harness

// C04 — draws are a pure function of the bitstream.
// C07 — the printed seed reproduces; a fixed seed fixes the whole run.

import (
	"fmt"
	"os"
	"os/exec"
	"regexp"
	"strings"
	"testing"
	"time"

	"pgregory.net/rapid"
)

func init() {
	monitors["C04"] = &monitor{scenarios: c04Scenarios, run: c04Run}
	monitors["C07"] = &monitor{scenarios: c07Scenarios, run: c07Run}
}

// mirrored scenario lists: scenario i belongs to shard i%n; every 6th one is
// additionally executed by the next shard, last and in reverse order, so the
// same seeds are evaluated by two processes with different histories.
func mirrored(cfg runCfg, total int, mk func(i int) []Scenario) []Scenario {
	var own, mirror []Scenario
	for i := 0; i < total; i++ {
		if cfg.mine(i) {
			own = append(own, mk(i)...)
		} else if cfg.nshards > 1 && i%6 == 0 && (i+1)%cfg.nshards == cfg.shard {
			for _, sc := range mk(i) {
				if sc.X == nil {
					sc.X = map[string]string{}
				}
				sc.X["mirror"] = "1"
				mirror = append(mirror, sc)
			}
		}
	}
	for i, j := 0, len(mirror)-1; i < j; i, j = i+1, j-1 {
		mirror[i], mirror[j] = mirror[j], mirror[i]
	}
	return append(own, mirror...)
}

func c04Scenarios(cfg runCfg) []Scenario {
	np := cfg.n(2400, 20)
	hist := func() []Scenario {
		var out []Scenario
		for j := 0; j < cfg.n(640, 10); j++ {
			if cfg.mine(j) {
				out = append(out, Scenario{Family: "history", Seed: mix(cfg.seed, 4, 44, uint64(j))})
			}
		}
		return out
	}()
	// one Check that draws a lot of data in total (2.5 M words over 40 test cases)
	if cfg.shard%8 == 5 {
		hist = append(hist, Scenario{Family: "big-data", Seed: mix(cfg.seed, 4, 45, uint64(cfg.shard))})
	}
	// one generator instance: recordings, then thousands of draws that give up deep inside it, then the same recordings
	for j := 0; j < cfg.n(32, 10); j++ {
		if cfg.mine(j) {
			hist = append(hist, Scenario{Family: "abuse-history", Seed: mix(cfg.seed, 4, 47, uint64(j))})
		}
	}
	// one fuzz target, many inputs one after the other: what an input draws does not depend on the inputs before it
	for j := 0; j < cfg.n(64, 10); j++ {
		if cfg.mine(j) {
			hist = append(hist, Scenario{Family: "fuzz-history", Seed: mix(cfg.seed, 4, 48, uint64(j))})
		}
	}
	// every rejection-heavy regexp, as a string and as a byte slice, is recorded, pruned and replayed on its own
	for j := 0; j < 2*len(rejRegexps); j++ {
		if cfg.mine(j) {
			hist = append(hist, Scenario{Family: "record", Seed: mix(cfg.seed, 4, 46, uint64(j)), N: cfg.n(60, 5), X: map[string]string{"rejgen": fmt.Sprint(j)}})
		}
	}
	return append(hist, mirrored(cfg, np, func(i int) []Scenario {
		seed := mix(cfg.seed, 4, uint64(i))
		switch mix(seed, 404) % 4 {
		case 0:
			return []Scenario{{Family: "example", Seed: seed, N: 20}}
		case 1:
			return []Scenario{{Family: "check", Seed: seed}}
		default:
			return []Scenario{{Family: "record", Seed: seed, N: 20}}
		}
	})...)
}

// c04HistoryChild prints the values a regexp generator produces for fixed seeds, after first using other
// regexp generators (the process-wide caches then have another history).
func c04HistoryChild() int {
	for _, w := range strings.Split(os.Getenv("C04_WARM"), "\x1f") {
		if w == "" {
			continue
		}
		g := rapid.StringMatching(w)
		for s := 0; s < 3; s++ {
			func() {
				defer func() { _ = recover() }()
				_ = g.Example(s)
			}()
		}
	}
	g := rapid.StringMatching(os.Getenv("C04_TARGET"))
	for s := 0; s < 24; s++ {
		func() {
			defer func() {
				if p := recover(); p != nil {
					fmt.Printf("H %d panic\n", s)
				}
			}()
			fmt.Printf("H %d %q\n", s, g.Example(s))
		}()
	}
	return 0
}

func outcomeStr(o rapid.VerifOutcome) string { return o.Kind + ":" + o.Msg }

func c04Opts(seed uint64) progOpts {
	o := progOptsFor(seed)
	o.rejecting = true
	o.goroutines = false
	return o
}

// touchGlobals uses the package-level generators and caches between runs:
// results must not depend on such history.
func touchGlobals(r *rng) {
	_ = rapid.String().String()
	_ = rapid.String().Example(r.intn(1000))
	_ = rapid.StringMatching(pick(r, regexps)).Example(r.intn(1000))
	_ = rapid.Rune().Example(r.intn(1000))
	_ = rapid.SliceOfN(rapid.Int(), 0, 3).Example(r.intn(1000))
}

func c04Run(t *testing.T, sc Scenario, res *Result) {
	mirror := sc.X["mirror"] == "1"
	r := newRng(sc.Seed, 0xc04)
	switch sc.Family {
	case "fuzz-history":
		// same bytes, same test case: ONE function returned by MakeFuzz is fed 40 inputs (long ones, then shorter
		// ones that overrun, repeats), and every input is also given to a target of its own in another order
		o := progOptsFor(sc.Seed)
		o.goroutines = false
		p := genProg(sc.Seed, o)
		lg := &Log{keepAll: true}
		prop := lg.prop(p.body())
		var recs [][]uint64
		for k := 0; k < 6; k++ {
			vs, _ := rapid.VerifRecord(mix(sc.Seed, uint64(k)), prop)
			recs = append(recs, vs.Data)
		}
		var inputs [][]byte
		for k := 0; k < 40; k++ {
			ws := append([]uint64(nil), pick(r, recs)...)
			switch r.intn(4) {
			case 0: // cut short: overruns where the one before it went on
				if len(ws) > 0 {
					ws = ws[:r.intn(len(ws))]
				}
			case 1: // made longer
				for j := 0; j < 1+r.intn(30); j++ {
					ws = append(ws, hostileWord(r, r.intn(wordPatterns)))
				}
			case 2:
				if len(ws) > 0 {
					ws[r.intn(len(ws))] = hostileWord(r, r.intn(wordPatterns))
				}
			}
			in := wordsToBytes(ws)
			if len(in) > 0 && r.chance(1, 4) {
				in = in[:len(in)-r.intn(8)]
			}
			inputs = append(inputs, in)
		}
		run := func(fz func(*testing.T, []byte), in []byte) string {
			lg.Invs = lg.Invs[:0]
			var st *testing.T
			t.Run("f", func(s *testing.T) { st = s; fz(s, in) })
			status := "pass"
			if st.Failed() {
				status = "fail"
			} else if st.Skipped() {
				status = "skip"
			}
			key := "?"
			if len(lg.Invs) == 1 {
				key = lg.Invs[0].drawsKey()
			}
			return status + "|" + key
		}
		shared := rapid.MakeFuzz(prop)
		var inOrder []string
		for _, in := range inputs {
			inOrder = append(inOrder, run(shared, in))
		}
		res.inc("fuzz_histories")
		res.count("fuzz_history_inputs", int64(len(inputs)))
		res.nontrivial("fuzz-history/" + p.Desc)
		for k := len(inputs) - 1; k >= 0; k-- {
			if alone := run(rapid.MakeFuzz(prop), inputs[k]); alone != inOrder[k] {
				res.violate(sc, "c04/fuzz-history", fmt.Sprintf("input #%d (%d bytes) of a sequence given to one fuzz target ended %q with other draws than the same bytes given to a fresh target (%q)", k, len(inputs[k]), clip(inOrder[k], 60), clip(alone, 60)), map[string]any{"program": p.Desc, "input_words": wordsStr(bytesToWords(inputs[k]))})
				return
			}
		}
	case "abuse-history":
		// A generator is an immutable specification: what ONE instance draws for a seed does not depend on how many
		// draws gave up inside it before (each of those unwinds, by a panic, through all of its frames).
		levels := r.between(6, 16)
		leaf := rapid.IntRange(0, 99).Filter(func(v int) bool { return v%9 == 8 }).AsAny() // gives up in a good part of the draws
		g, desc := deepChain(r, leaf, levels)
		var vals []string
		prop := func(t *rapid.T) {
			vals = append(vals, canon(g.Draw(t, "a")))
			vals = append(vals, canon(g.Draw(t, "b")))
		}
		type rec struct {
			kind string
			vals string
			data []uint64
		}
		record := func(seed uint64) rec {
			vals = vals[:0]
			vs, out := rapid.VerifRecord(seed, prop)
			return rec{out.Kind, strings.Join(vals, " "), vs.Data}
		}
		const nkeep = 24
		var before []rec
		for k := 0; k < nkeep; k++ {
			before = append(before, record(sc.Seed%1000003+uint64(k)))
			res.inc("recordings")
		}
		gaveUp := 0
		for k := 0; k < 2500; k++ {
			if record(mix(sc.Seed, 0xab, uint64(k))).kind == "invalid" {
				gaveUp++
			}
		}
		// also by overruns: replays of truncated recordings end inside the chain
		for k := 0; k < 200; k++ {
			d := before[k%nkeep].data
			if len(d) > 1 {
				vals = vals[:0]
				rapid.VerifReplay(d[:1+k%(len(d)-1)], prop)
			}
		}
		res.count("abuse_draws_that_gave_up", int64(gaveUp))
		res.inc("abuse_histories")
		res.nontrivial("abuse/" + desc)
		for k := 0; k < nkeep; k++ {
			after := record(sc.Seed%1000003 + uint64(k))
			if after.kind != before[k].kind || after.vals != before[k].vals || !wordsEqual(after.data, before[k].data) {
				res.violate(sc, "c04/abuse-history", fmt.Sprintf("one generator instance drew other values for seed %d after %d draws had given up inside it: %s [%s] before, %s [%s] after", sc.Seed%1000003+uint64(k), gaveUp, before[k].kind, clip(before[k].vals, 80), after.kind, clip(after.vals, 80)), map[string]any{"generator": desc})
				return
			}
			vals = vals[:0]
			o := rapid.VerifReplay(before[k].data, prop)
			if o.Kind != before[k].kind || strings.Join(vals, " ") != before[k].vals {
				res.violate(sc, "c04/abuse-history", fmt.Sprintf("replaying the bits recorded for seed %d gave other values after %d draws had given up inside the same generator instance", sc.Seed%1000003+uint64(k), gaveUp), map[string]any{"generator": desc})
				return
			}
		}
	case "big-data":
		// test case #k of a long, data-heavy Check draws exactly what its own seed draws in a run of its own: nothing a
		// Check keeps across its test cases (counters, buffers) may show up in the values
		base := sc.Seed%1000003 + 1
		setFlags(map[string]string{"rapid.seed": fmt.Sprint(base), "rapid.checks": "40", "rapid.nofailfile": "true"})
		big := rapid.SliceOfN(rapid.Uint64(), 30000, 30000)
		digest := func(t *rapid.T) uint64 {
			h := uint64(rapid.Uint8().Draw(t, "first"))
			for _, v := range big.Draw(t, "big") {
				h = mix(h, v)
			}
			// collections of variable size after the payload: their lengths are decided by the bits alone
			for _, v := range rapid.SliceOf(rapid.Uint16()).Draw(t, "tail") {
				h = mix(h, uint64(v)+1)
			}
			h = mix(h, uint64(len(rapid.String().Draw(t, "str"))))
			return h
		}
		var inRun []uint64
		tb := newTB("C04big")
		runCheck(tb, func(t *rapid.T) { inRun = append(inRun, digest(t)) })
		res.inc("recordings")
		res.inc("big_data_checks")
		res.count("big_data_cases", int64(len(inRun)))
		res.nontrivial(fmt.Sprintf("big-data/%x", sc.Seed))
		if tb.Failed() || len(inRun) != 40 {
			res.violate(sc, "c04/big-data-verdict", fmt.Sprintf("a never-failing property that draws 30000 integers per test case: %d test cases ran, report %q", len(inRun), clip(parseReport(tb).Raw, 200)), nil)
			return
		}
		for _, k := range []int{0, 1, 17, 28, 39} {
			seedK := base + uint64(k*(k+1)/2) // the seed schedule of a run: +0, +1, +2, ...
			var alone uint64
			_, out := rapid.VerifRecord(seedK, func(t *rapid.T) { alone = digest(t) })
			if out.Kind != "ok" || alone != inRun[k] {
				res.violate(sc, "c04/big-data-case", fmt.Sprintf("test case #%d of the run (seed %d) drew other values than the same seed on its own (%s; digests %x vs %x)", k+1, seedK, out.Kind, inRun[k], alone), nil)
				return
			}
		}
	case "history":
		// the values drawn for a seed must not depend on which other generators the process used before
		self, _ := os.Executable()
		target := pick(r, regexps)
		var warm []string
		for i, n := 0, r.between(1, 6); i < n; i++ {
			warm = append(warm, pick(r, regexps))
		}
		if r.chance(1, 2) {
			// related patterns: character classes that look alike to a cache (same text under other flags,
			// long classes with a long common prefix, a class and its superset)
			grp := pick(r, [][]string{
				{`\p{Lu}+`, `[\p{Lu}\p{Lt}]{1,6}`, `\pL{1,3}`, `[\p{Lu}\p{Nd}]{2}`},
				{`\p{Greek}{1,4}`, `[\p{Greek}\p{Cyrillic}]{1,4}`, `[\p{Greek}\p{Coptic}]+`},
				{`(?i)[a-c]{1,4}`, `[A-Ca-c]{1,4}`, `(?i)[A-C]+`},
				{`(?i)[k-m]{2}`, `[K-Mk-m]{2}`, `(?i)[K-M]`},
				{`\w+`, `(?i)\w+`, `[0-9A-Z_a-z]{1,3}`},
			})
			target = pick(r, grp)
			warm = append([]string{pick(r, grp)}, warm...)
		}
		run := func(w []string) string {
			cmd := exec.Command(self, "-verif.child=c04hist")
			cmd.Env = append(os.Environ(), "C04_TARGET="+target, "C04_WARM="+strings.Join(w, "\x1f"))
			out, _ := cmd.Output()
			var keep []string
			for _, l := range strings.Split(string(out), "\n") {
				if strings.HasPrefix(l, "H ") {
					keep = append(keep, l)
				}
			}
			return strings.Join(keep, "\n")
		}
		cold, warmed := run(nil), run(warm)
		res.inc("history_pairs")
		res.nontrivial("history/" + target + "/" + strings.Join(warm, ","))
		if cold == "" {
			res.inconclusive("history child produced no output")
		} else if cold != warmed {
			res.violate(sc, "c04/history", fmt.Sprintf("StringMatching(%q).Example(seed) gives other values in a process that used %q before", target, warm),
				map[string]any{"target": target, "used_before": warm, "fresh_process": clip(cold, 600), "after_other_generators": clip(warmed, 600)})
		}

	case "example":
		gx := buildGX(r, gxOpts{depth: r.intn(3)})
		var dig []string
		for s := 0; s < sc.N; s++ {
			seed := int(mix(sc.Seed, uint64(s)) % 100000)
			a, okA := safeExample(gx, seed)
			if r.chance(1, 3) {
				touchGlobals(r)
			}
			b, okB := safeExample(gx, seed)
			res.inc("example_pairs")
			if okA != okB || a != b {
				res.violate(sc, "c04/example", fmt.Sprintf("Example(%d) of %s gave two different values in one process", seed, gx.Desc), map[string]any{"first": clip(a, 300), "second": clip(b, 300)})
			}
			if okA {
				res.nontrivial(gx.Desc + "\x00" + a)
			}
			dig = append(dig, fmt.Sprintf("%x", hashStr(a)))
		}
		res.digest(fmt.Sprintf("example/%x", sc.Seed), strings.Join(dig, ","))
		if !mirror && res.wantSample() && r.chance(1, 20) {
			v, _ := safeExample(gx, 7)
			res.sample(map[string]any{"family": "example", "expr": gx.Desc, "Example(7)": clip(v, 200)})
		}

	case "record":
		// long state-machine runs: a forced stop after hundreds of steps must replay as well as one after a few
		steps := pick(r, []string{"30", "30", "30", "300", "2000"})
		setFlags(map[string]string{"rapid.steps": steps})
		p := genProg(sc.Seed, c04Opts(sc.Seed))
		if k := sc.X["rejgen"]; k != "" {
			var j int
			fmt.Sscan(k, &j)
			gx := gxRegexpOf(rejRegexps[j/2], j%2 == 0)
			p = &Prog{Steps: []Step{{Op: "draw", GX: gx, Label: "v"}, {Op: "draw", GX: gx, Label: "w"}}, Desc: "draw " + gx.Desc + " twice"}
			res.inc("rejection_heavy_regexp_programs")
		}
		if steps != "30" {
			hasRepeat := false
			for _, st := range p.Steps {
				if st.Op == "repeat" {
					hasRepeat = true
				}
			}
			if hasRepeat {
				sc.N = 3 // long runs: fewer seeds per program
				res.inc("long_repeat_programs")
			}
		}
		lg := &Log{keepAll: true}
		prop := lg.prop(p.body())
		var dig []string
		for s := 0; s < sc.N; s++ {
			seed := mix(sc.Seed, 0x5eed, uint64(s))
			lg.Invs = lg.Invs[:0]
			vs, o := rapid.VerifRecord(seed, prop)
			rec := lg.Invs[0]
			res.inc("recordings")
			res.inc("outcome:" + o.Kind)
			nDiscard := 0
			for _, g := range vs.Groups {
				if g.Discard {
					nDiscard++
				}
			}
			if nDiscard > 0 {
				res.inc("recordings_with_rejected_attempts")
			}
			// same seed again, after touching process-global caches
			if s%4 == 0 {
				touchGlobals(r)
			}
			vs2, o2 := rapid.VerifRecord(seed, prop)
			if !wordsEqual(vs.Data, vs2.Data) || outcomeStr(o) != outcomeStr(o2) || lg.Invs[1].drawsKey() != rec.drawsKey() {
				res.violate(sc, "c04/seed-twice", fmt.Sprintf("seed %d gave two different test cases in one process", seed),
					map[string]any{"program": p.Desc, "first": rec.brief(), "second": lg.Invs[1].brief()})
			}
			// replay as recorded
			o3 := rapid.VerifReplay(vs.Data, prop)
			rp := lg.Invs[2]
			if outcomeStr(o3) != outcomeStr(o) || rp.drawsKey() != rec.drawsKey() {
				res.violate(sc, "c04/replay", "replaying the recorded bits gives a different test case or verdict",
					map[string]any{"program": p.Desc, "seed": seed, "recorded": rec.brief(), "recorded_outcome": outcomeStr(o), "replay": rp.brief(), "replay_outcome": outcomeStr(o3), "words": wordsStr(vs.Data)})
			}
			// prune: real vs reference
			pruned := rapid.VerifPrune(vs)
			if ref := refPrune(vs); !wordsEqual(pruned, ref) {
				res.violate(sc, "c04/prune-diff", "prune() result differs from deleting the discard-marked groups",
					map[string]any{"program": p.Desc, "seed": seed, "prune": wordsStr(pruned), "reference": wordsStr(ref), "recording": wordsStr(vs.Data)})
			}
			// replay with rejected attempts removed (complete runs only, see DESIGN §5 C04)
			o4 := rapid.VerifReplay(pruned, prop)
			pr := lg.Invs[3]
			if o.Kind != "invalid" {
				res.inc("prune_replays_judged")
				if len(pruned) < len(vs.Data) {
					res.inc("prune_replays_with_removed_bits")
					res.nontrivial(fmt.Sprintf("%x/%x", sc.Seed, seed))
				}
				if outcomeStr(o4) != outcomeStr(o) || pr.liveKey() != rec.liveKey() {
					res.violate(sc, "c04/prune-replay", "replaying the recording with rejected attempts removed gives different values or a different verdict",
						map[string]any{"program": p.Desc, "seed": seed, "recorded": rec.brief(), "recorded_outcome": outcomeStr(o), "replay": pr.brief(), "replay_outcome": outcomeStr(o4),
							"recording": wordsStr(vs.Data), "pruned": wordsStr(pruned)})
				}
			} else if outcomeStr(o4) != outcomeStr(o) {
				res.inc("invalid_run_prune_replay_differs(not judged)")
			}
			dig = append(dig, fmt.Sprintf("%x", mix(hashWords(vs.Data), hashStr(rec.drawsKey()), hashStr(outcomeStr(o)))))
			if !mirror && s == 0 && nDiscard > 0 && res.wantSample() {
				res.sample(map[string]any{"family": "record", "program": p.Desc, "seed": seed, "recording": wordsStr(vs.Data), "pruned": wordsStr(pruned), "outcome": outcomeStr(o), "draws": rec.brief()["draws"]})
			}
		}
		res.digest(fmt.Sprintf("record/%x", sc.Seed), strings.Join(dig, ","))

	case "check":
		defer os.RemoveAll("testdata")
		p := genProg(sc.Seed, c04Opts(sc.Seed))
		fl := map[string]string{"rapid.seed": fmt.Sprint(sc.Seed%999983 + 1), "rapid.shrinktime": "0s", "rapid.nofailfile": "true"}
		a := runProgram(p, runOpts{name: "C04", flags: fl})
		touchGlobals(r)
		if r.chance(1, 2) {
			// some unrelated check in between
			q := genProg(mix(sc.Seed, 99), c04Opts(mix(sc.Seed, 99)))
			runProgram(q, runOpts{name: "C04other", flags: map[string]string{"rapid.shrinktime": "0s", "rapid.nofailfile": "true", "rapid.checks": "20"}})
		}
		b := runProgram(p, runOpts{name: "C04", flags: fl})
		res.inc("check_pairs")
		da, db := runDigest(a), runDigest(b)
		if da != db {
			res.violate(sc, "c04/check-twice", "two Checks with the same -rapid.seed in one process differ", map[string]any{"program": p.Desc, "flags": fl, "diff": diffRuns(a, b), "first": a.tb.brief(), "second": b.tb.brief()})
		}
		res.digest(fmt.Sprintf("check/%x", sc.Seed), da)
		res.nontrivial(fmt.Sprintf("check/%x", sc.Seed))
		if mix(sc.Seed, 0x4a4e)%4 == 0 {
			// ONE generator with a predicate that holds rarely (1 value in 24), used by the same Check three times in a row:
			// what it draws depends on the seed alone, not on how often the generator was turned down before
			rare := rapid.IntRange(0, 999).Filter(func(v int) bool { return v%24 == 0 })
			var runs [3][]int
			for k := range runs {
				setFlags(map[string]string{"rapid.seed": fmt.Sprint(sc.Seed%999983 + 1), "rapid.checks": "40", "rapid.nofailfile": "true"})
				tb := newTB("C04rare")
				runCheck(tb, func(t *rapid.T) {
					v := rare.Draw(t, "rare")
					runs[k] = append(runs[k], v, rapid.IntRange(0, 9).Draw(t, "next"))
				})
			}
			res.inc("rare_filter_triples")
			if fmt.Sprint(runs[0]) != fmt.Sprint(runs[1]) || fmt.Sprint(runs[0]) != fmt.Sprint(runs[2]) {
				res.violate(sc, "c04/rare-filter", fmt.Sprintf("three Checks with the same seed drew different values from one shared generator with a rarely satisfied Filter (%d, %d and %d values)", len(runs[0]), len(runs[1]), len(runs[2])), nil)
			}
		}
	}
}

func safeExample(gx *GX, seed int) (s string, ok bool) {
	defer func() {
		if p := recover(); p != nil {
			s, ok = "panic:"+clip(fmt.Sprint(p), 80), false
		}
	}()
	return canon(gx.Gen.Example(seed)), true
}

var reDur = regexp.MustCompile(`\([0-9.]+(ns|µs|ms|s|m|h)[0-9.a-zµ]*\)`)

// reTrace matches traceback lines: they name harness frames (closure names and
// line numbers of the harness's own call sites), which legitimately differ
// between two calls made from different places of the harness.
var reTrace = regexp.MustCompile(`(?m)^    \S+:\d+ in .*$`)

// rePtr matches the address %#v prints for a pointer value (Ptr generators).
var rePtr = regexp.MustCompile(`\)\(0x[0-9a-f]+\)`)

func normText(s string) string {
	s = reTrace.ReplaceAllString(reDur.ReplaceAllString(s, "(T)"), "    <frame>")
	s = rePtr.ReplaceAllString(s, ")(PTR)")
	return reFF.ReplaceAllString(s, `-rapid.failfile="<F>"`) // the file name carries a time stamp and the pid
}

// runDigest condenses a whole Check: every invocation's draws and ending plus the TB messages (durations removed).
func runDigest(cr *checkRun) string {
	h := uint64(1)
	for _, inv := range cr.log.Invs {
		k := inv.phase() + "|"
		if !inv.trimmed {
			k += inv.drawsKey()
		}
		for _, it := range inv.Intents {
			k += "!" + it.Kind + it.Msg
		}
		h = mix(h, hashStr(k))
	}
	for _, e := range cr.tb.snapshot() {
		h = mix(h, hashStr(e.Kind+normText(e.Text)))
	}
	return fmt.Sprintf("%d:%x", len(cr.log.Invs), h)
}

// ---------------------------------------------------------------------------
// C07

func c07Scenarios(cfg runCfg) []Scenario {
	np := cfg.n(960, 20)
	return mirrored(cfg, np, func(i int) []Scenario {
		return []Scenario{{Family: "seed", Seed: mix(cfg.seed, 7, uint64(i)), K: 1 + i%60}}
	})
}

func c07Run(t *testing.T, sc Scenario, res *Result) {
	defer os.RemoveAll("testdata")
	mirror := sc.X["mirror"] == "1"
	r := newRng(sc.Seed, 0xc07)
	o := progOpts{rejecting: r.chance(1, 2), sites: 1, nonFatal: true, repeat: r.chance(1, 4), failDen: sc.K, skipAfter: r.chance(1, 3)}
	if r.chance(1, 2) {
		o.skipFirst = r.between(2, 5) // skipped cases before the falsified one: the seed schedule counts them too
	}
	p := genProg(sc.Seed, o)
	// make the first failif a hash predicate with probability 1/K so the failing index varies
	for i := range p.Steps {
		if p.Steps[i].Op == "failif" {
			p.Steps[i].Pred = Pred{Typ: "hash", M: uint64(sc.K), Keep: 1, Salt: sc.Seed}
		}
	}
	base := map[string]string{"rapid.shrinktime": "3s", "rapid.nofailfile": "true"}
	given := !r.chance(1, 3)
	if mirror {
		given = true // fresh-seed runs cannot be compared between processes
	}
	if given {
		base["rapid.seed"] = fmt.Sprint(sc.Seed%99991 + 1)
	}
	if r.chance(1, 3) {
		base["rapid.shrinktime"] = "0s"
	}
	if r.chance(1, 3) {
		// with fail files enabled the message has the form -rapid.failfile="..." (or -rapid.seed=N); the file
		// is removed after every run so that only the seed is exercised
		base["rapid.nofailfile"] = "false"
		res.inc("runs_with_failfile_message")
	}
	// a run whose minimisation was still going near the 3s limit was cut by the clock: its
	// minimised result is legitimately not reproducible and is not compared
	const nearLimit = 1500 * time.Millisecond
	a := runProgram(p, runOpts{name: "C07", flags: base})
	os.RemoveAll("testdata")
	res.inc("runs_A")
	if a.dur > nearLimit {
		res.inc("time_cut_not_compared")
		return
	}
	if given {
		// whole-run determinism in one process
		a2 := runProgram(p, runOpts{name: "C07", flags: base})
		os.RemoveAll("testdata")
		if a2.dur > nearLimit {
			res.inc("time_cut_not_compared")
			return
		}
		res.digest(fmt.Sprintf("runA/%x", sc.Seed), runDigest(a))
		res.inc("same_seed_pairs")
		if runDigest(a) != runDigest(a2) {
			res.violate(sc, "c07/whole-run", "two runs with the same -rapid.seed differ (test cases, failure or minimised result)",
				map[string]any{"program": p.Desc, "flags": base, "diff": diffRuns(a, a2)})
		}
	}
	if a.rp.Kind == "flaky" {
		res.violate(sc, "c07/flaky", "a deterministic program was reported as flaky: the reproduction run with the failing case's seed did not fail the same way",
			map[string]any{"program": p.Desc, "flags": base, "tb": a.tb.brief()})
		return
	}
	if a.rp.Kind != "failed" && a.rp.Kind != "panic" {
		res.inc("A_not_failed")
		return
	}
	var falsified *Inv
	idx := 0
	for _, inv := range a.log.Invs {
		if inv.phase() == "generate" {
			if inv.signalled() {
				falsified = inv
				break
			}
			idx++
		}
	}
	if falsified == nil || a.rp.Seed == 0 {
		res.violate(sc, "c07/no-seed", "failure message carries no -rapid.seed or no generated case was falsified", map[string]any{"program": p.Desc, "tb": a.tb.brief()})
		return
	}
	res.inc("failures")
	res.inc(fmt.Sprintf("first_failure_index_bucket:%d", bucket(idx)))
	res.nontrivial(fmt.Sprintf("%x", sc.Seed))
	fb := flagsWith(base, "rapid.seed", fmt.Sprint(a.rp.Seed))
	if mix(sc.Seed, 0x7b)%2 == 0 {
		// the user re-runs the printed seed with -rapid.v to look at the failing case: what is generated must not depend on it
		fb["rapid.v"] = "true"
		res.inc("reruns_with_rapid.v")
	}
	b := runProgram(p, runOpts{name: "C07", flags: fb})
	os.RemoveAll("testdata")
	if b.dur > nearLimit {
		res.inc("time_cut_not_compared")
		return
	}
	res.inc("runs_B")
	res.digest(fmt.Sprintf("runB/%x/%d", sc.Seed, a.rp.Seed), runDigest(b))
	firstB := b.log.Invs[0]
	detail := map[string]any{"program": p.Desc, "printed_seed": a.rp.Seed, "A_failing_index": idx, "A_falsified": falsified.brief(), "B_first": firstB.brief(), "B_report": clip(b.rp.Raw, 300), "A_report": clip(a.rp.Raw, 300)}
	if firstB.phase() != "generate" || firstB.drawsKey() != falsified.drawsKey() {
		res.violate(sc, "c07/first-case", "with the printed seed the first test case does not draw the values of the originally failing test case", detail)
	} else if (b.rp.Kind != "failed" && b.rp.Kind != "panic") || b.rp.N != 0 {
		res.violate(sc, "c07/after-0", fmt.Sprintf("with the printed seed Check does not fail after 0 tests (%s after %d)", b.rp.Kind, b.rp.N), detail)
	} else if b.rp.M != a.rp.M || !wordsEqual(a.log.Invs[len(a.log.Invs)-1].Cand, b.log.Invs[len(b.log.Invs)-1].Cand) {
		res.violate(sc, "c07/same-minimum", "re-running the printed seed reports a different failure or minimised test case", detail)
	}
	if b.rp.Seed != a.rp.Seed {
		res.violate(sc, "c07/seed-stable", fmt.Sprintf("re-run prints seed %d, original run printed %d", b.rp.Seed, a.rp.Seed), detail)
	}
	if !mirror && res.wantSample() && idx > 0 {
		res.sample(map[string]any{"program": p.Desc, "base_seed_flag": base["rapid.seed"], "first_failure_at_index": idx, "printed_seed": a.rp.Seed, "rerun": clip(b.rp.Raw, 160)})
	}
}

// diffRuns locates the first difference between two monitored Checks.
func diffRuns(a, b *checkRun) string {
	if len(a.log.Invs) != len(b.log.Invs) {
		return fmt.Sprintf("%d vs %d invocations", len(a.log.Invs), len(b.log.Invs))
	}
	for i := range a.log.Invs {
		x, y := a.log.Invs[i], b.log.Invs[i]
		if x.phase() != y.phase() || (!x.trimmed && !y.trimmed && x.drawsKey() != y.drawsKey()) || fmt.Sprint(x.Intents) != fmt.Sprint(y.Intents) {
			return fmt.Sprintf("invocation %d differs: %v vs %v", i, x.brief(), y.brief())
		}
	}
	ea, eb := a.tb.snapshot(), b.tb.snapshot()
	for i := range ea {
		if i >= len(eb) || ea[i].Kind != eb[i].Kind || normText(ea[i].Text) != normText(eb[i].Text) {
			return fmt.Sprintf("TB event %d differs: %q vs %q", i, clip(ea[i].Text, 600), clip(fmt.Sprint(eb), 600))
		}
	}
	return "no difference found"
}

func bucket(i int) int {
	switch {
	case i == 0:
		return 0
	case i < 3:
		return 1
	case i < 10:
		return 3
	case i < 30:
		return 10
	default:
		return 30
	}
}
