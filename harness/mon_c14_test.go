package harness

// C14 — T's non-drawing methods are safe to call from many goroutines.
// Runs under the race detector (the runner builds this binary with -race and
// counts the reports); in addition every per-T history of
// Fail/Error/Errorf/Failed/Context/Cleanup calls, recorded at the client
// boundary, is checked for linearizability with porcupine against a small
// sequential model, and end states are checked (verdict, cleanups exactly once,
// one context, cancelled afterwards).

import (
	"context"
	"fmt"
	"os"
	"os/exec"
	"strings"
	"sync"
	"sync/atomic"
	"testing"
	"time"

	"github.com/anishathalye/porcupine"
	"pgregory.net/rapid"
)

func init() {
	monitors["C14"] = &monitor{scenarios: c14Scenarios, run: c14Run, finish: c14Finish}
}

func c14Scenarios(cfg runCfg) []Scenario {
	var out []Scenario
	n := cfg.n(1280, 20)
	for i := 0; i < n; i++ {
		if cfg.mine(i) {
			h := mix(cfg.seed, 1414, uint64(i))
			fam := []string{"mixed", "context-first", "late-cleanup", "mixed", "context-poll", "overlap-exit", "late-first-context"}[h%7]
			out = append(out, Scenario{Family: fam, Seed: mix(cfg.seed, 14, uint64(i)), N: []int{2, 4, 8, 16, 32}[(h>>8)%5]})
		}
	}
	return out
}

type c14op struct {
	G      int
	Op     string
	Call   int64
	Return int64
	Failed bool   // result of Failed()
	Ctx    uint64 // identity of the context returned by Context()
}

type c14in struct{ Op string }
type c14out struct {
	Failed bool
	Ctx    uint64
}
type c14state struct {
	failed bool
	ctx    uint64
}

var c14Model = porcupine.Model{
	Init: func() any { return c14state{} },
	Step: func(st, in, out any) (bool, any) {
		s := st.(c14state)
		switch in.(c14in).Op {
		case "Fail", "Error", "Errorf":
			s.failed = true
			return true, s
		case "Failed":
			return out.(c14out).Failed == s.failed, s
		case "Context":
			id := out.(c14out).Ctx
			if s.ctx == 0 {
				s.ctx = id
				return true, s
			}
			return s.ctx == id, s
		}
		return true, s
	},
	Equal: func(a, b any) bool { return a.(c14state) == b.(c14state) },
	DescribeOperation: func(in, out any) string {
		return fmt.Sprintf("%s -> %+v", in.(c14in).Op, out.(c14out))
	},
}

var c14tick atomic.Int64
var ctxIDs sync.Map // context.Context -> uint64
var ctxSeq atomic.Uint64

func ctxID(c context.Context) uint64 {
	if v, ok := ctxIDs.Load(c); ok {
		return v.(uint64)
	}
	v, _ := ctxIDs.LoadOrStore(c, ctxSeq.Add(1))
	return v.(uint64)
}

type c14case struct {
	ops             []c14op
	ctxs            []context.Context
	registered      *atomic.Int64 // final value is read after the case (and its late goroutines) finished
	ran             atomic.Int64
	ranTwice        atomic.Int64
	failingOps      int
	lateFailing     atomic.Int64      // failures signalled by goroutines while the case's cleanup functions were running
	lateCtxs        []context.Context // contexts obtained by goroutines whose FIRST Context() call came as the case ended
	liveDuring      bool
	lateCleanup     bool
	liveAfterCancel atomic.Int64
	pollMu          sync.Mutex
}

var c14LogFirst bool
var c14OnCustomT bool // the scenario's script runs on the T of a Custom generator function

var c14Ops = []string{"Helper", "Name", "Log", "Logf", "Failed", "Context", "Cleanup", "Failed", "Context", "Cleanup", "Error", "Errorf", "Fail"}

// c14Prop builds the property; every call of it is one case on a fresh or reused T.
// c14locked is a piece of the user's own state: it is protected by the user's own lock, also while it is printed.
type c14locked struct {
	mu *sync.Mutex
	n  int
}

func (s *c14locked) String() string {
	s.mu.Lock()
	defer s.mu.Unlock()
	return fmt.Sprintf("state(%d)", s.n)
}

func c14Prop(sc Scenario, cases *[]*c14case) func(t *rapid.T) {
	return func(t *rapid.T) {
		var u uint64
		if c14LogFirst {
			// nothing touches this T before the goroutines do: their Log/Logf/Error calls are the first use of
			// whatever the T sets up lazily for logging (the draw comes last)
			u = mix(sc.Seed, uint64(len(*cases)))
			defer func() { rapid.Uint64().Draw(t, "script") }()
		} else {
			u = rapid.Uint64().Draw(t, "script")
		}
		G := sc.N
		cs := &c14case{liveDuring: true}
		*cases = append(*cases, cs)
		start := make(chan struct{})
		var wg sync.WaitGroup
		perG := make([][]c14op, G)
		perCtx := make([][]context.Context, G)
		registered := &atomic.Int64{}
		cs.registered = registered
		failing := make([]int, G)
		live := make([]bool, G)
		register := func() {
			registered.Add(1)
			var once atomic.Int64
			t.Cleanup(func() {
				if once.Add(1) > 1 {
					cs.ranTwice.Add(1)
				}
				cs.ran.Add(1)
			})
		}
		var lateWG sync.WaitGroup
		if sc.Family == "context-poll" {
			// goroutines that keep asking for the context across the end of the property: once it has been
			// cancelled (property returned) they must never be handed a live one again
			cs.lateCleanup = true
			t.Cleanup(func() { lateWG.Wait() })
			for g := 0; g < G; g++ {
				lateWG.Add(1)
				go func() {
					defer lateWG.Done()
					var seen []context.Context
					sawCancelled := false
					for i := 0; i < 200000; i++ {
						c := t.Context()
						if len(seen) == 0 || seen[len(seen)-1] != c {
							seen = append(seen, c)
						}
						if c.Err() != nil {
							if !sawCancelled {
								sawCancelled = true
								i = 200000 - 300 // a few hundred more calls after the cancellation was observed
							}
						} else if sawCancelled {
							cs.liveAfterCancel.Add(1)
						}
					}
					cs.pollMu.Lock()
					cs.ctxs = append(cs.ctxs, seen...)
					cs.pollMu.Unlock()
				}()
			}
		}
		if sc.Family == "late-first-context" {
			// nobody asks for the context while the property runs; G goroutines ask for it for the first time at the very
			// moment the test case ends (by returning, or by SkipNow): whatever they are handed must be cancelled by the
			// time the cleanup functions have run
			cs.lateCleanup = true
			gate := make(chan struct{})
			t.Cleanup(func() { lateWG.Wait() })
			for g := 0; g < G; g++ {
				lateWG.Add(1)
				go func() {
					defer lateWG.Done()
					<-gate
					var seen []context.Context
					for i := 0; i < 3; i++ {
						seen = append(seen, t.Context())
					}
					cs.pollMu.Lock()
					cs.lateCtxs = append(cs.lateCtxs, seen...)
					cs.pollMu.Unlock()
				}()
			}
			register()
			defer close(gate) // the last thing the property does, however it ends
			if mix(u, 0xe4d)%2 == 0 && !c14OnCustomT {
				t.SkipNow() // (a Custom generator function that skips is called again: one case per call is kept there)
			}
			return
		}
		if sc.Family == "overlap-exit" {
			// goroutines that keep registering cleanups, failing-state reads and context calls while the property
			// (a short state machine) steps and returns; they are stopped and awaited by the cleanup registered first
			cs.lateCleanup = true
			ctx := t.Context()
			failSome := mix(u, 0xfa11)%4 == 0
			t.Cleanup(func() { lateWG.Wait() })
			for g := 0; g < G; g++ {
				lateWG.Add(1)
				go func() {
					defer lateWG.Done()
					// until the context is cancelled, i.e. while the property steps, returns and rapid
					// looks at the failure state; the cancellation precedes the first cleanup
					for i := 0; ctx.Err() == nil; i++ {
						register()
						_ = t.Failed()
						if failSome && i%40 == 0 {
							// workers that keep signalling failures while the property returns and rapid reads the failure state
							cs.lateFailing.Add(1)
							t.Errorf("a worker failed")
						}
						if i%64 == 0 {
							time.Sleep(time.Microsecond)
						}
					}
				}()
			}
			t.Repeat(map[string]func(*rapid.T){
				"step": func(at *rapid.T) { rapid.Bool().Draw(at, "b") },
				"":     func(at *rapid.T) { _ = at.Failed() },
			})
			if failSome && mix(u, 0xfa7)%2 == 0 {
				// the property's own goroutine stops the test case fatally while the workers are still signalling
				cs.lateFailing.Add(1)
				t.Fatalf("a worker failed")
			}
		}
		if sc.Family == "late-cleanup" {
			// goroutines that outlive the body: they wake when the context is cancelled, register cleanups while
			// rapid is already running this case's cleanups, and are awaited by the cleanup registered first
			cs.lateCleanup = true
			ctx := t.Context()
			t.Cleanup(func() { lateWG.Wait() })
			for i := 0; i < 40; i++ {
				register()
			}
			for g := 0; g < G; g++ {
				lateWG.Add(1)
				go func() {
					defer lateWG.Done()
					<-ctx.Done()
					for i := 0; i < 8; i++ {
						register()
					}
					if mix(u, uint64(g), 0x1a7e)%uint64(6*G) == 0 {
						// a worker that reports its failure only when it is told to stop, i.e. while cleanup functions run
						cs.lateFailing.Add(1)
						t.Errorf("worker %d failed while shutting down", g)
					}
				}()
			}
		}
		// the user's own lock: in a fifth of the scenarios the workers call the non-logging methods of T while holding
		// it, and pass a value whose String method takes it to the logging ones (lock order: user lock, then T's)
		var stMu sync.Mutex
		st := &c14locked{mu: &stMu, n: int(u % 100)}
		userLock := sc.Seed%5 == 2
		for g := 0; g < G; g++ {
			wg.Add(1)
			go func(g int) {
				defer wg.Done()
				r := newRng(u, uint64(g))
				n := r.between(3, 8)
				live[g] = true
				<-start
				for i := 0; i < n; i++ {
					op := pick(r, c14Ops)
					if sc.Family == "context-first" && i == 0 {
						op = "Context"
					}
					if (op == "Error" || op == "Errorf" || op == "Fail") && !r.chance(1, 12) {
						op = "Failed" // failing calls are rare so that most cases pass and many are run
					}
					rec := c14op{G: g, Op: op}
					rec.Call = c14tick.Add(1)
					held := false
					if userLock {
						switch op {
						case "Log", "Logf", "Error", "Errorf":
						default:
							stMu.Lock()
							held = true
						}
					}
					switch op {
					case "Helper":
						t.Helper()
					case "Name":
						_ = t.Name()
					case "Log":
						if userLock {
							t.Log("goroutine", g, st)
						} else {
							t.Log("goroutine", g)
						}
					case "Logf":
						if userLock {
							t.Logf("goroutine %d sees %v", g, st)
						} else {
							t.Logf("goroutine %d", g)
						}
					case "Error":
						t.Error("concurrent failure")
						failing[g]++
					case "Errorf":
						if userLock && r.chance(1, 2) {
							t.Errorf("worker %d found %v broken", g, st)
						} else if r.chance(1, 2) {
							// the message is what the arguments were when Errorf was called: the caller may reuse them at once
							args := []int{g, i}
							t.Errorf("worker %v failed", args)
							args[0], args[1] = -1, -1
						} else {
							t.Errorf("%s", "concurrent failure")
						}
						failing[g]++
					case "Fail":
						t.Fail()
						failing[g]++
					case "Failed":
						rec.Failed = t.Failed()
					case "Context":
						c := t.Context()
						rec.Ctx = ctxID(c)
						perCtx[g] = append(perCtx[g], c)
						if c.Err() != nil {
							live[g] = false
						}
					case "Cleanup":
						register()
					}
					if held {
						stMu.Unlock()
					}
					rec.Return = c14tick.Add(1)
					perG[g] = append(perG[g], rec)
				}
			}(g)
		}
		close(start)
		wg.Wait()
		cs.pollMu.Lock() // the polling goroutines of the context-poll family append to cs.ctxs when they are done
		for g := 0; g < G; g++ {
			cs.ops = append(cs.ops, perG[g]...)
			cs.ctxs = append(cs.ctxs, perCtx[g]...)
			cs.failingOps += failing[g]
			if !live[g] {
				cs.liveDuring = false
			}
		}
		for g := 0; g < G; g++ {
			for _, c := range perCtx[g] {
				if c.Err() != nil {
					cs.liveDuring = false
				}
			}
		}
		cs.pollMu.Unlock()
	}
}

func c14Run(t *testing.T, sc Scenario, res *Result) {
	defer os.RemoveAll("testdata")
	r := newRng(sc.Seed, 0xc14)
	var cases []*c14case
	prop := c14Prop(sc, &cases)
	if sc.Seed%5 == 2 {
		res.inc("scenarios_with_a_user_lock")
	}
	if mix(sc.Seed, 0xc57)%4 == 0 {
		// the same script on the T of a Custom generator function: its goroutines, cleanups and context belong to
		// that call of the function, and a failure signalled on it falsifies the test case
		inner := prop
		g := rapid.Custom(func(it *rapid.T) int { inner(it); return 0 })
		prop = func(t *rapid.T) { g.Draw(t, "custom") }
		c14OnCustomT = true
		defer func() { c14OnCustomT = false }()
		res.inc("scenarios_on_the_T_of_a_Custom_function")
	}
	type outcome struct {
		kind string
		msg  string
	}
	var outcomes []outcome
	viaCheck := r.chance(1, 2)
	if viaCheck {
		fl := map[string]string{"rapid.checks": "12", "rapid.nofailfile": "true", "rapid.shrinktime": "0s", "rapid.seed": fmt.Sprint(sc.Seed%100003 + 1)}
		if r.chance(1, 2) {
			fl["rapid.v"] = "true"
			res.inc("verbose_checks")
		}
		setFlags(fl)
		tb := newTB("C14")
		if mix(sc.Seed, 0x7b)%3 == 0 {
			// a TB that has a Context of its own (Go 1.24+): the slow path of T.Context then calls into the TB
			parent, cancelParent := context.WithCancel(context.Background())
			defer cancelParent()
			runCheckAs(tb, ctxTB{tb, parent}, prop)
			res.inc("checks_on_a_TB_with_Context")
		} else {
			runCheck(tb, prop)
		}
		res.inc("checks_run")
		rp := parseReport(tb)
		for _, e := range tb.events {
			if strings.Contains(e.Text, "worker [-1") {
				outcomes = append(outcomes, outcome{"failed", e.Text})
				break
			}
		}
		anyFail := false
		for _, cs := range cases {
			if cs.failingOps > 0 || cs.lateFailing.Load() > 0 {
				anyFail = true
			}
		}
		if anyFail != tb.Failed() {
			res.violate(sc, "c14/verdict", fmt.Sprintf("a goroutine signalled a failure in some case: %v, but Check failed: %v (%s)", anyFail, tb.Failed(), clip(rp.Raw, 200)), map[string]any{"tb": tb.brief()})
		}
		timingDependent := false
		for _, cs := range cases {
			if sc.Family == "overlap-exit" && cs.lateFailing.Load() > 0 {
				timingDependent = true // WHERE rapid notices the workers' failures depends on the schedule: not a deterministic property
			}
		}
		if rp.Kind == "flaky" && !timingDependent {
			res.violate(sc, "c14/flaky", "deterministic concurrent property reported as flaky: "+clip(rp.Raw, 300), nil)
		}
	} else {
		if mix(sc.Seed, 0x106)%6 == 0 {
			// -rapid.log: every T gets its own stdout logger; Log/Logf/Error/Errorf from goroutines go through it
			setFlags(map[string]string{"rapid.log": "true"})
			c14LogFirst = true
			defer func() { setFlags(nil); c14LogFirst = false }()
			res.inc("rapid_log_scenarios")
		}
		for s := 0; s < 12; s++ {
			done := make(chan struct{})
			var o rapid.VerifOutcome
			go func() {
				defer close(done)
				_, o = rapid.VerifRecord(mix(sc.Seed, uint64(s)), prop)
			}()
			waitOrDie(done, "a test case with concurrent goroutines")
			outcomes = append(outcomes, outcome{o.Kind, o.Msg})
		}
		for i, cs := range cases {
			failed := outcomes[i].kind == "failed"
			nf := cs.failingOps + int(cs.lateFailing.Load())
			if failed != (nf > 0) {
				res.violate(sc, "c14/lost-update", fmt.Sprintf("case %d: %d failing calls were made by goroutines (%d of them while cleanup functions ran) but the case's outcome is %q", i, nf, cs.lateFailing.Load(), outcomes[i].kind+" "+outcomes[i].msg), nil)
			}
		}
	}
	for _, o := range outcomes {
		if strings.Contains(o.msg, "worker [-1") {
			res.violate(sc, "c14/late-format", "the failure message was formatted after Errorf had returned (it shows what the caller stored in the arguments afterwards): "+clip(o.msg, 200), nil)
			break
		}
	}
	for i, cs := range cases {
		res.inc("cases")
		res.count("ops", int64(len(cs.ops)))
		want := cs.registered.Load()
		if cs.lateCleanup {
			res.inc("late_cleanup_cases")
		}
		if cs.ran.Load() != want || cs.ranTwice.Load() > 0 {
			res.violate(sc, "c14/cleanups", fmt.Sprintf("case %d (%s, %d goroutines): %d cleanups registered, %d ran, %d ran more than once", i, sc.Family, sc.N, want, cs.ran.Load(), cs.ranTwice.Load()), nil)
		}
		res.count("cleanups", want)
		ids := map[uint64]bool{}
		for _, o := range cs.ops {
			if o.Op == "Context" {
				ids[o.Ctx] = true
			}
		}
		if len(ids) > 1 {
			res.violate(sc, "c14/contexts", fmt.Sprintf("case %d (%s, %d goroutines): goroutines observed %d different contexts", i, sc.Family, sc.N, len(ids)), nil)
		}
		if len(ids) > 0 {
			res.inc("cases_with_context")
		}
		for _, c := range cs.lateCtxs {
			if c.Err() == nil {
				res.violate(sc, "c14/late-context-live", fmt.Sprintf("case %d (%s, %d goroutines): a context handed to a goroutine that asked for it as the test case ended is still live after the case and its cleanup functions are over", i, sc.Family, sc.N), nil)
				break
			}
		}
		res.count("contexts_first_requested_as_the_case_ended", int64(len(cs.lateCtxs)))
		if n := cs.liveAfterCancel.Load(); n > 0 {
			res.violate(sc, "c14/ctx-resurrected", fmt.Sprintf("case %d (%s, %d goroutines): after the case's context had been cancelled, Context() handed out a live context %d times", i, sc.Family, sc.N, n), nil)
		}
		if !cs.liveDuring {
			res.violate(sc, "c14/ctx-dead", fmt.Sprintf("case %d: a context was already cancelled while the property was running", i), nil)
		}
		for _, c := range cs.ctxs {
			if c.Err() == nil {
				res.violate(sc, "c14/ctx-leak", fmt.Sprintf("case %d (%s, %d goroutines): a context handed to a goroutine was never cancelled", i, sc.Family, sc.N), nil)
				break
			}
		}
		// linearizability of the recorded history
		var hist []porcupine.Operation
		sig := make([]string, 0, len(cs.ops))
		for _, o := range cs.ops {
			switch o.Op {
			case "Fail", "Error", "Errorf", "Failed", "Context":
				hist = append(hist, porcupine.Operation{ClientId: o.G, Input: c14in{o.Op}, Call: o.Call, Output: c14out{o.Failed, o.Ctx}, Return: o.Return})
			}
			sig = append(sig, fmt.Sprintf("%d%s", o.G, o.Op[:2]))
		}
		if cs.lateFailing.Load() > 0 && sc.Family == "overlap-exit" {
			hist = nil // the failing calls of the overlapping workers are not part of the recorded history
			res.inc("cases_with_workers_failing_across_the_exit")
		}
		if len(hist) > 0 {
			verdict, _ := porcupine.CheckOperationsVerbose(c14Model, hist, 3*time.Second)
			res.inc("porcupine:" + string(verdict))
			switch verdict {
			case porcupine.Illegal:
				var hs []string
				for _, o := range cs.ops {
					hs = append(hs, fmt.Sprintf("g%d %s [%d,%d] failed=%v ctx=%d", o.G, o.Op, o.Call, o.Return, o.Failed, o.Ctx))
				}
				res.violate(sc, "c14/not-linearizable", fmt.Sprintf("case %d: the history of Fail/Failed/Context calls is not linearizable", i), map[string]any{"history": clipList(hs, 60)})
			case porcupine.Unknown:
				res.inconclusive("porcupine timed out")
			}
		}
		// distinct interleavings actually observed: order of call ticks
		res.nontrivial(strings.Join(orderSig(cs.ops), ""))
		if res.wantSample() && i == 0 && r.chance(1, 4) {
			var hs []string
			for _, o := range cs.ops {
				hs = append(hs, fmt.Sprintf("g%d %s [%d,%d]", o.G, o.Op, o.Call, o.Return))
			}
			res.sample(map[string]any{"family": sc.Family, "goroutines": sc.N, "history": clipList(hs, 24)})
		}
	}
}

// orderSig is the sequence of (goroutine, op) ordered by call tick: two executions with the same signature
// made their calls in the same global order.
func orderSig(ops []c14op) []string {
	s := append([]c14op(nil), ops...)
	for i := 1; i < len(s); i++ {
		for j := i; j > 0 && s[j].Call < s[j-1].Call; j-- {
			s[j], s[j-1] = s[j-1], s[j]
		}
	}
	out := make([]string, len(s))
	for i, o := range s {
		out[i] = fmt.Sprintf("%d%c", o.G, o.Op[0])
	}
	return out
}

// c14Finish proves that the race detector is live in this build: a child process with a deliberate race in
// the harness itself must produce a report.
func c14Finish(cfg runCfg, res *Result) {
	if cfg.shard != 0 {
		return
	}
	res.count("canary_race_reports", int64(raceCanary()))
}

func raceCanary() int {
	self, _ := os.Executable()
	dir, err := os.MkdirTemp(".", "canary")
	if err != nil {
		return 0
	}
	defer os.RemoveAll(dir)
	cmd := exec.Command(self, "-verif.child=racecanary")
	cmd.Env = append(os.Environ(), "GORACE=halt_on_error=0 log_path="+dir+"/canary")
	_ = cmd.Run()
	n := 0
	ents, _ := os.ReadDir(dir)
	for _, e := range ents {
		b, _ := os.ReadFile(dir + "/" + e.Name())
		n += strings.Count(string(b), "WARNING: DATA RACE")
	}
	return n
}

var canaryVar int

func raceCanaryChild() int {
	var wg sync.WaitGroup
	for i := 0; i < 4; i++ {
		wg.Add(1)
		go func() {
			defer wg.Done()
			for j := 0; j < 1000; j++ {
				canaryVar++
			}
		}()
	}
	wg.Wait()
	return 0
}
