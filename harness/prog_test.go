package harness

// Random property functions ("programs"), their interpreter and the
// per-invocation log that the oracles of C01, C02, C04–C11, C17 read.
// A program is a deterministic function of its draws: no clocks, addresses,
// map iteration order or scheduling influence what it does.

import (
	"context"
	"errors"
	"fmt"
	"os"
	"runtime"
	"strings"
	"sync"
	"time"

	"pgregory.net/rapid"
)

// ---------------------------------------------------------------------------
// invocation log

type Draw struct {
	Label string `json:"label"`
	Canon string `json:"canon"`
	GoStr string `json:"gostr,omitempty"`
	Level int    `json:"level,omitempty"` // 0 = on the T handed to the property, >0 = inside Custom
	Dead  bool   `json:"dead,omitempty"`  // drawn in an attempt that was rejected (skipped action): invisible to predicates
	Int   int64  `json:"-"`
	IsInt bool   `json:"-"`
}

type Intent struct {
	Kind  string `json:"kind"`
	Site  int    `json:"site"`
	Msg   string `json:"msg"`
	Fatal bool   `json:"fatal"`
	Panic bool   `json:"panic"` // a raw panic / runtime error (reported as "panic after")
	Where string `json:"where"`
}

type Inv struct {
	Idx          int
	Kind         string // random | buffer
	Persist      bool
	Cand         []uint64           // buffer streams: the words this invocation was given
	Exit         *rapid.VerifStream // recording streams: the recording when the invocation ended
	Draws        []Draw
	Trace        []string
	Intents      []Intent
	SkipWhy      string // non-empty when the program called Skip
	Returned     bool   // property function returned normally
	repeatCalled bool   // the program reached its T.Repeat call
	Pending      string // label of a draw that did not return (invalid data / inner failure)
	Custom       int    // number of Custom function calls
	trimmed      bool
	Left         int // buffer streams, when Log.wantLeft: words not consumed when the invocation ended
}

func (v *Inv) phase() string {
	switch {
	case v.Kind == "random" && !v.Persist:
		return "generate"
	case v.Kind == "random" && v.Persist:
		return "reproduce"
	case v.Kind == "buffer" && v.Persist:
		return "accepted"
	default:
		return "buffer"
	}
}

// signalled reports whether the invocation raised any failure signal.
func (v *Inv) signalled() bool { return len(v.Intents) > 0 }

func (v *Inv) lastIntent() *Intent {
	if len(v.Intents) == 0 {
		return nil
	}
	return &v.Intents[len(v.Intents)-1]
}

// drawsKey is the canonical identity of the values an invocation received.
func (v *Inv) drawsKey() string {
	var b strings.Builder
	for _, d := range v.Draws {
		fmt.Fprintf(&b, "%d/%s=%s;", d.Level, d.Label, d.Canon)
	}
	return b.String()
}

// liveKey is the identity of the draws that belong to accepted attempts only:
// what program predicates may depend on (rejected attempts are pruned from
// replayed bitstreams, so a deterministic program must not remember them).
func (v *Inv) liveKey() string {
	var b strings.Builder
	for _, d := range v.Draws {
		if !d.Dead {
			fmt.Fprintf(&b, "%d/%s=%s;", d.Level, d.Label, d.Canon)
		}
	}
	return b.String()
}

func (v *Inv) outerDraws() []Draw {
	var out []Draw
	for _, d := range v.Draws {
		if d.Level == 0 {
			out = append(out, d)
		}
	}
	return out
}

// siteKey identifies the failure site as the property statement of C05
// defines it: the call stack of the fatal signal, or "nonfatal" when the
// invocation failed only through non-fatal calls.
func (v *Inv) siteKey() string {
	for _, it := range v.Intents {
		if it.Fatal || it.Panic {
			// the call stack: kind (which T method / panic statement), site function, and the kind of callback
			// it was reached through - two actions running the same code have the same call stack
			where := it.Where
			if i := strings.Index(where, ":"); i >= 0 {
				where = where[:i]
			}
			return fmt.Sprintf("%s@%d/%s", it.Kind, it.Site, where)
		}
	}
	if len(v.Intents) > 0 {
		return "nonfatal"
	}
	return ""
}

func (v *Inv) brief() map[string]any {
	m := map[string]any{"idx": v.Idx, "phase": v.phase(), "returned": v.Returned}
	var ds []string
	for i, d := range v.Draws {
		if i >= 12 {
			ds = append(ds, fmt.Sprintf("...+%d", len(v.Draws)-i))
			break
		}
		ds = append(ds, fmt.Sprintf("%s=%s", d.Label, clip(d.Canon, 80)))
	}
	m["draws"] = ds
	if len(v.Intents) > 0 {
		m["intents"] = v.Intents
	}
	if v.SkipWhy != "" {
		m["skip"] = v.SkipWhy
	}
	if v.Pending != "" {
		m["pending_draw"] = v.Pending
	}
	if v.Kind == "buffer" {
		m["cand"] = wordsStr(v.Cand)
	}
	return m
}

type Log struct {
	Invs       []*Inv
	noExit     bool
	keepAll    bool
	wantLeft   bool
	lean       bool
	minimizing bool
	// watchdog: a single Check that exceeds these budgets is cut off by making every further
	// invocation skip at once; the scenario is then inconclusive (never held, never violated)
	started      time.Time
	accepted     int
	exhausted    string
	lastAccepted []uint64
	witness      *Inv
}

// X is the execution context handed to program steps.
type X struct {
	t     *rapid.T
	inv   *Inv
	log   *Log
	level int
	where string
	// model state of Repeat programs (fresh per invocation)
	counter int64
	// cleanup bookkeeping (C10)
	cleanupSeq int
	skipping   bool // the program called Skip and the panic is unwinding
	attempts   int  // action attempts started in this invocation
	siteDepth  int  // extra stack frames between a failure site and the signal
	extraDepth int  // further recursive calls for the failure being raised right now (data dependent)
}

// (the quick tier gives one Check at most 250 000 invocations - a rare, very long minimisation is then inconclusive
// there and judged in the thorough tier, which allows 1 500 000)
var maxInvsPerCheck = 1500000
var maxWallPerCheck = 150 * time.Second

const (
	maxAcceptedPerCheck = 30000
)

// sampling is set while the harness itself draws examples from a generator (to calibrate thresholds): generator
// functions that belong to a program must not record into the invocation log then.
var sampling bool

var curX *X // the most recently started invocation (programs are single threaded)

// current reports whether x's invocation is still the most recent one, i.e. no later
// invocation has begun (cleanups and contexts of one invocation must not reach into the next).
func (x *X) current() bool {
	return len(x.log.Invs) > 0 && x.log.Invs[len(x.log.Invs)-1] == x.inv
}

func (l *Log) prop(body func(x *X)) func(*rapid.T) {
	return func(t *rapid.T) {
		vs := rapid.VerifStreamOf(t)
		inv := &Inv{Idx: len(l.Invs), Kind: vs.Kind, Persist: vs.Persist}
		if vs.Kind == "buffer" {
			inv.Cand = vs.Remaining
		}
		if n := len(l.Invs); n > 0 && l.minimizing && !l.keepAll {
			// rejected minimisation candidates are only needed for their site: free the bulk
			if pv := l.Invs[n-1]; pv.phase() == "buffer" {
				pv.Cand, pv.Trace, pv.Draws = nil, nil, nil
				pv.trimmed = true
			}
		}
		if inv.phase() == "reproduce" {
			l.minimizing = true
		}
		l.Invs = append(l.Invs, inv)
		if l.started.IsZero() {
			l.started = time.Now()
		}
		if inv.phase() == "accepted" {
			l.accepted++
			// online backstop for the C05 chain oracle: c_i < B_(i-1) <= c_(i-1), so a candidate that is not
			// strictly smaller than the previous accepted one means minimisation may cycle forever - stop feeding it
			if l.lastAccepted != nil && shortlexCmp(inv.Cand, l.lastAccepted) >= 0 && l.exhausted == "" {
				l.exhausted = "an accepted candidate was not smaller than the previous accepted one"
				l.witness = inv
			}
			l.lastAccepted = inv.Cand
		}
		if l.exhausted == "" {
			switch {
			case len(l.Invs) > maxInvsPerCheck:
				l.exhausted = fmt.Sprintf("more than %d invocations in one Check", maxInvsPerCheck)
			case l.accepted > maxAcceptedPerCheck:
				l.exhausted = fmt.Sprintf("more than %d accepted shrink steps in one Check", maxAcceptedPerCheck)
			case len(l.Invs)%1024 == 0 && time.Since(l.started) > maxWallPerCheck:
				l.exhausted = fmt.Sprintf("one Check ran longer than %v", maxWallPerCheck)
			}
		}
		if l.exhausted != "" {
			inv.Draws, inv.Cand = nil, nil
			l.Invs = l.Invs[:len(l.Invs)-1] // keep memory bounded; the log is not judged any more
			t.Skip("verif watchdog")
		}
		x := &X{t: t, inv: inv, log: l, where: "body"}
		curX = x // stays current until the next invocation begins: cleanups run after the body returned
		defer func() {
			annotateStuck(inv)
			if inv.Persist && !l.noExit {
				ex := rapid.VerifStreamOf(t)
				inv.Exit = &ex
			}
			if l.wantLeft && inv.Kind == "buffer" {
				inv.Left = len(rapid.VerifStreamOf(t).Remaining)
			}
		}()
		body(x)
		inv.Returned = true
		if l.lean && len(inv.Intents) == 0 {
			inv.Draws, inv.Trace, inv.Cand = nil, nil, nil // long passing runs: keep only the skeleton
			inv.trimmed = true
		}
	}
}

const noValidActionsMsg = "can't find a valid (non-skipped) action"

// annotateStuck recognises a state machine none of whose actions can run: after
// 100 consecutive attempts that skipped before drawing, Repeat itself reports a
// failure (C08).  That is a deterministic falsification caused by the program,
// so it is recorded as a failure intent of the invocation.
func annotateStuck(inv *Inv) {
	if inv.Returned {
		return
	}
	n := 0
	for i := len(inv.Trace) - 1; i >= 0; i-- {
		e := inv.Trace[i]
		if strings.HasPrefix(e, "act> ") || strings.HasPrefix(e, "skip ") {
			continue
		}
		if strings.HasPrefix(e, "act< ") && strings.HasSuffix(e, " skipped-before-draw") {
			n++
			continue
		}
		break
	}
	if n >= 100 {
		inv.Intents = append(inv.Intents, Intent{Kind: "stuck-machine", Site: -1, Msg: noValidActionsMsg, Fatal: true, Where: "repeat"})
	}
}

func (x *X) ev(format string, a ...any) {
	x.inv.Trace = append(x.inv.Trace, fmt.Sprintf(format, a...))
}

// draw draws from g on the current T and records the value.
func (x *X) draw(g *rapid.Generator[any], label string) any {
	x.inv.Pending = label + "?"
	v := g.Draw(x.t, label)
	x.inv.Pending = ""
	d := Draw{Label: label, Canon: canon(v), Level: x.level}
	if x.level == 0 {
		d.GoStr = fmt.Sprintf("%#v", v)
	}
	d.Int, d.IsInt = intView(v)
	x.inv.Draws = append(x.inv.Draws, d)
	return v
}

func (x *X) skip(why string) {
	x.inv.SkipWhy = why
	x.skipping = true
	x.ev("skip %s", why)
	switch len(x.inv.Draws) % 3 { // all three ways of skipping a *rapid.T, chosen by the data
	case 0:
		x.t.Skip(why)
	case 1:
		x.t.Skipf("%s", why)
	default:
		x.t.Logf("%s", why)
		x.t.SkipNow()
	}
}

// ---------------------------------------------------------------------------
// failure kinds and sites

const (
	fkPanicStr = iota
	fkPanicErr
	fkPanicStruct
	fkPanicNil
	fkIndex
	fkNilMap
	fkDiv0
	fkLibAssert // a panic raised by rapid itself on misuse: a Custom generator whose function draws nothing
	fkFatal
	fkFatalf
	fkFailNow
	fkError
	fkErrorf
	fkFail
	fkErrorEmpty      // t.Error() without arguments
	fkErrorfEmpty     // t.Errorf("")
	fkFatalfRecovered // t.Fatalf behind the callback's own recover(): the callback goes on, the failure must stick
	nFailKinds
)

var failKindNames = []string{"panic-string", "panic-error", "panic-struct", "panic-nil", "rt-index", "rt-nilmap", "rt-div0", "lib-assert", "Fatal", "Fatalf", "FailNow", "Error", "Errorf", "Fail", "Error-empty", "Errorf-empty", "Fatalf-recovered"}

func kindFatal(k int) bool { return k >= fkFatal && k <= fkFailNow }
func kindPanic(k int) bool { return k <= fkLibAssert }

// noDrawGen misuses Custom (its function draws nothing): rapid answers with a panic of its own, in every kind of run
var noDrawGen = rapid.Custom(func(*rapid.T) int { return 0 })

func kindNonFatal(k int) bool {
	return k >= fkError
}

type boomStruct struct {
	A int
	B string
}

var zeroInt = 0
var nilMap map[string]int

// expectedMsg is the text rapid is expected to name for a failure of kind k raised with msg.
func expectedMsg(k int, msg string) string {
	switch k {
	case fkPanicStr, fkPanicErr, fkFatal, fkFatalf, fkError, fkErrorf, fkFatalfRecovered:
		return msg
	case fkPanicStruct:
		return fmt.Sprintf("%v", boomStruct{7, msg})
	case fkPanicNil:
		return (&runtime.PanicNilError{}).Error()
	case fkIndex:
		return "runtime error: index out of range [5] with length 3"
	case fkNilMap:
		return "assignment to entry in nil map"
	case fkDiv0:
		return "runtime error: integer divide by zero"
	case fkLibAssert:
		return "group did not use any data from bitstream; this is likely a result of Custom generator not calling any of the built-in generators"
	case fkFailNow:
		return "(*T).FailNow() called"
	case fkFail:
		return "(*T).Fail() called"
	case fkErrorEmpty, fkErrorfEmpty:
		return ""
	}
	return msg
}

// raise signals failure kind k on t.  The intent is logged before the signal.
//
//go:noinline
func raise(x *X, t *rapid.T, k int, site int, msg string) {
	// (a failure reached through d more recursive calls of the same helper has another call stack: another site)
	x.inv.Intents = append(x.inv.Intents, Intent{Kind: failKindNames[k], Site: site + 10*x.extraDepth, Msg: expectedMsg(k, msg), Fatal: kindFatal(k), Panic: kindPanic(k), Where: x.where})
	x.ev("signal %s site=%d", failKindNames[k], site)
	switch k {
	case fkPanicStr:
		panic(msg)
	case fkPanicErr:
		if len(x.inv.Draws)%2 == 1 {
			panic(fmt.Errorf("%w", errors.New(msg))) // same text, a fresh chain of allocations in every execution
		}
		panic(errors.New(msg))
	case fkPanicStruct:
		panic(boomStruct{7, msg})
	case fkPanicNil:
		panic(nil)
	case fkIndex:
		a := make([]int, 3)
		i := 5 + zeroInt
		_ = a[i]
	case fkNilMap:
		nilMap["x"] = 1
	case fkDiv0:
		_ = 1 / zeroInt
	case fkLibAssert:
		noDrawGen.Draw(t, "nodraw")
	case fkFatal:
		t.Fatal(msg)
	case fkFatalf:
		t.Fatalf("%s", msg)
	case fkFailNow:
		t.FailNow()
	case fkError:
		t.Error(msg)
	case fkErrorf:
		t.Errorf("%s", msg)
	case fkFail:
		t.Fail()
	case fkErrorEmpty:
		t.Error()
	case fkErrorfEmpty:
		t.Errorf("")
	case fkFatalfRecovered:
		func() {
			defer func() { _ = recover() }()
			t.Fatalf("%s", msg)
		}()
	}
}

// Distinct call stacks = distinct failure sites.

//go:noinline
func site0(x *X, t *rapid.T, k int, msg string) {
	deepRaise(x, t, k, 0, msg, x.siteDepth+x.extraDepth)
	runtime.KeepAlive(x)
}

//go:noinline
func site1(x *X, t *rapid.T, k int, msg string) {
	deepRaise(x, t, k, 1, msg, x.siteDepth+x.extraDepth)
	runtime.KeepAlive(t)
}

//go:noinline
func site2(x *X, t *rapid.T, k int, msg string) {
	deepRaise(x, t, k, 2, msg, x.siteDepth+x.extraDepth)
	runtime.KeepAlive(k)
}

//go:noinline
func site3(x *X, t *rapid.T, k int, msg string) {
	deepRaise(x, t, k, 3, msg, x.siteDepth+x.extraDepth)
	runtime.KeepAlive(msg)
}

//go:noinline
func site4(x *X, t *rapid.T, k int, msg string) {
	deepRaise(x, t, k, 4, msg, x.siteDepth+x.extraDepth)
	runtime.KeepAlive(x)
}

//go:noinline
func site5(x *X, t *rapid.T, k int, msg string) {
	deepRaise(x, t, k, 5, msg, x.siteDepth+x.extraDepth)
	runtime.KeepAlive(t)
}

// deepRaise reaches raise through d further stack frames: the frames that tell two failure sites apart (siteN)
// are then far from the innermost frame, as they are for a bug deep inside the code under test.
//
//go:noinline
func deepRaise(x *X, t *rapid.T, k int, site int, msg string, d int) {
	if d > 0 {
		deepRaise(x, t, k, site, msg, d-1)
		runtime.KeepAlive(d)
		return
	}
	raise(x, t, k, site, msg)
}

var sites = []func(x *X, t *rapid.T, k int, msg string){site0, site1, site2, site3, site4, site5}

func (x *X) fail(k int, site int) {
	msg := fmt.Sprintf("boom k%d s%d h%04x", k, site, hashStr(x.inv.liveKey())&0xffff)
	sites[site%len(sites)](x, x.t, k, msg)
}

// ---------------------------------------------------------------------------
// predicates over the draws made so far

type Pred struct {
	Typ  string `json:"typ"` // always never gt lt absge hash
	I    int    `json:"i,omitempty"`
	K    int64  `json:"k,omitempty"`
	M    uint64 `json:"m,omitempty"`
	Keep uint64 `json:"keep,omitempty"`
	Salt uint64 `json:"salt,omitempty"`
}

func (p Pred) String() string {
	switch p.Typ {
	case "gt":
		return fmt.Sprintf("d%d>%d", p.I, p.K)
	case "lt":
		return fmt.Sprintf("d%d<%d", p.I, p.K)
	case "absge":
		return fmt.Sprintf("|d%d|>=%d", p.I, p.K)
	case "hash":
		return fmt.Sprintf("h%%%d<%d", p.M, p.Keep)
	case "ctr":
		return fmt.Sprintf("ctr>%d", p.K)
	case "attempt":
		return fmt.Sprintf("attempt%%%d==0", p.M)
	}
	return p.Typ
}

func (p Pred) eval(x *X) bool {
	ds := x.inv.Draws
	switch p.Typ {
	case "always":
		return true
	case "never":
		return false
	case "gt", "lt", "absge":
		// the I-th draw of the current nesting level that has an integer view
		n := -1
		for _, d := range ds {
			if d.Level != x.level || !d.IsInt || d.Dead {
				continue
			}
			n++
			if n == p.I {
				switch p.Typ {
				case "gt":
					return d.Int > p.K
				case "lt":
					return d.Int < p.K
				default:
					return d.Int >= p.K || d.Int <= -p.K
				}
			}
		}
		return false
	case "hash":
		return mix(hashStr(x.inv.liveKey()), p.Salt)%p.M < p.Keep
	case "ctr":
		return x.counter > p.K
	case "attempt":
		// every M-th action attempt of the invocation (skipped-before-draw attempts are replayed, not pruned)
		return uint64(x.attempts)%p.M == 0
	}
	return false
}

// ---------------------------------------------------------------------------
// program steps

type Step struct {
	RecDepth bool   // failif: reach the failure site through 1-4 extra recursive calls, depending on the last integer drawn
	Op       string // draw failif skipif repeat go ctx cleanup log
	GX       *GX
	Label    string
	Pred     Pred
	Kind     int
	Site     int
	N        int
	Acts     []Action
	Inv      []Step // invariant ("" action); nil = none
	Clean    int    // cleanup behaviour
	// Shared: the actions map of a repeat step is built once and reused for every invocation
	Shared    bool
	actsCache map[string]func(*rapid.T)
}

type Action struct {
	Name  string
	Steps []Step
}

type Prog struct {
	Seed  uint64
	Steps []Step
	Desc  string
	Depth int // extra call depth between failure sites and the signal
	// the property looks at t.Failed() first and returns at once when it is set (a common guard in front of an
	// expensive or fatal stage): on a T that has not signalled anything it must be false in every kind of run
	FailedGate bool
}

func (s Step) describe() string {
	switch s.Op {
	case "draw":
		return fmt.Sprintf("draw(%s,%q)", s.GX.Desc, s.Label)
	case "failif":
		return fmt.Sprintf("failif(%s,%s,s%d)", s.Pred, failKindNames[s.Kind], s.Site)
	case "skipif":
		return fmt.Sprintf("skipif(%s)", s.Pred)
	case "invalidif":
		return fmt.Sprintf("invalidif(%s)", s.Pred)
	case "add":
		return "ctr+=last"
	case "go":
		return fmt.Sprintf("go(%d,%s if %s)", s.N, failKindNames[s.Kind], s.Pred)
	case "cleanup":
		return fmt.Sprintf("cleanup(%s if %s)", cleanNames[s.Clean], s.Pred)
	case "ctx":
		return "ctx"
	case "repeat":
		var as []string
		for _, a := range s.Acts {
			var ss []string
			for _, q := range a.Steps {
				ss = append(ss, q.describe())
			}
			as = append(as, a.Name+":{"+strings.Join(ss, ";")+"}")
		}
		inv := ""
		if s.Inv != nil {
			var ss []string
			for _, q := range s.Inv {
				ss = append(ss, q.describe())
			}
			inv = " inv:{" + strings.Join(ss, ";") + "}"
		}
		return "repeat(" + strings.Join(as, " ") + inv + ")"
	}
	return s.Op
}

const (
	clNone = iota
	clErrorf
	clFatalf
	clPanic
	clRegisterMore
	clCtx
	nCleanKinds
)

var cleanNames = []string{"none", "Errorf", "Fatalf", "panic", "register-more", "ctx"}

func (x *X) exec(steps []Step) {
	for i := range steps {
		s := &steps[i]
		switch s.Op {
		case "draw":
			x.draw(s.GX.Gen, s.Label)
		case "failif":
			if s.Pred.eval(x) {
				if s.RecDepth {
					// the depth of the recursion that leads to the failure depends on the data
					for j := len(x.inv.Draws) - 1; j >= 0; j-- {
						if d := x.inv.Draws[j]; d.IsInt && !d.Dead {
							x.extraDepth = 1 + int(uint64(d.Int)%4)
							break
						}
					}
				}
				x.fail(s.Kind, s.Site)
				x.extraDepth = 0
			}
		case "skipif":
			if s.Pred.eval(x) {
				x.skip("skipif " + s.Pred.String())
			}
		case "invalidif":
			// the attempt becomes invalid through a generator (unsatisfiable Filter), not through (*T).Skip
			if s.Pred.eval(x) {
				x.ev("invalid-draw")
				x.draw(impossibleGen, "never")
			}
		case "add":
			// mutate the model with the last integer draw – only reached when the action did not skip
			for j := len(x.inv.Draws) - 1; j >= 0; j-- {
				if x.inv.Draws[j].IsInt && !x.inv.Draws[j].Dead {
					v := x.inv.Draws[j].Int % 1000
					if v < 0 {
						v = -v
					}
					x.counter += v%7 + 1
					break
				}
			}
		case "go":
			fire := s.Pred.eval(x)
			var wg sync.WaitGroup
			if fire {
				// the intent is written once, by the program's own goroutine, before the signal
				msg := fmt.Sprintf("boom k%d s%d h%04x", s.Kind, s.Site, hashStr(x.inv.liveKey())&0xffff)
				x.inv.Intents = append(x.inv.Intents, Intent{Kind: failKindNames[s.Kind], Site: s.Site, Msg: expectedMsg(s.Kind, msg), Where: x.where + "/goroutine"})
				for g := 0; g < s.N; g++ {
					wg.Add(1)
					go func() {
						defer wg.Done()
						switch s.Kind {
						case fkError:
							x.t.Error(msg)
						case fkErrorf:
							x.t.Errorf("%s", msg)
						case fkErrorEmpty:
							x.t.Error()
						case fkErrorfEmpty:
							x.t.Errorf("")
						default:
							x.t.Fail()
						}
					}()
				}
				wg.Wait()
			}
		case "ctx":
			c := x.t.Context()
			x.ev("ctx live=%v", c.Err() == nil)
		case "cleanup":
			x.registerCleanup(s, 0)
		case "repeat":
			x.repeat(s)
		}
	}
}

func (x *X) registerCleanup(s *Step, depth int) {
	id := x.cleanupSeq
	x.cleanupSeq++
	x.ev("cleanup-reg %d", id)
	t := x.t
	where := x.where
	var ctx context.Context
	if s.Clean == clCtx {
		ctx = t.Context()
	}
	t.Cleanup(func() {
		x.ev("cleanup-run %d", id)
		saved := x.where
		x.where = where + "/cleanup"
		defer func() { x.where = saved }()
		if ctx != nil {
			x.ev("cleanup-ctx cancelled=%v", ctx.Err() != nil)
		}
		if !s.Pred.eval(x) {
			return
		}
		switch s.Clean {
		case clErrorf:
			raiseOn(x, t, fkErrorf, s.Site)
		case clFatalf:
			raiseOn(x, t, fkFatalf, s.Site)
		case clPanic:
			raiseOn(x, t, fkPanicStr, s.Site)
		case clRegisterMore:
			if depth < 2 {
				x.registerCleanup(&Step{Op: "cleanup", Clean: clNone, Pred: Pred{Typ: "never"}}, depth+1)
			}
		}
	})
}

func raiseOn(x *X, t *rapid.T, k int, site int) {
	msg := fmt.Sprintf("boom k%d s%d h%04x", k, site, hashStr(x.inv.liveKey())&0xffff)
	sites[site%len(sites)](x, t, k, msg)
}

func (x *X) repeat(s *Step) {
	acts := map[string]func(*rapid.T){}
	if s.Shared && s.actsCache != nil {
		// one actions map built once and handed to Repeat in every invocation (it must not be modified by
		// Repeat); the call below is the single call site, so that the call stack is the same every time
		acts = s.actsCache
		goto run
	}
	for i := range s.Acts {
		a := &s.Acts[i]
		acts[a.Name] = func(t *rapid.T) {
			x := curX // the invocation in progress (the map may be shared between invocations)
			// the action-selection draw is logged by rapid as draw "action"
			x.inv.Draws = append(x.inv.Draws, Draw{Label: "action", Canon: canon(a.Name), GoStr: fmt.Sprintf("%#v", a.Name), Level: x.level})
			start := len(x.inv.Draws) - 1
			x.attempts++
			x.ev("act> %s", a.Name)
			saved := x.where
			x.where = "action:" + a.Name
			done := false
			defer func() {
				x.where = saved
				if !done {
					if x.skipping || x.inv.Pending != "" {
						// rejected attempt (the action skipped, or one of its draws was rejected as invalid
						// data): Repeat swallows it; its draws must not influence later behaviour
						x.skipping = false
						x.inv.SkipWhy = ""
						x.inv.Pending = ""
						drew := len(x.inv.Draws) - 1 - start
						for j := start; j < len(x.inv.Draws); j++ {
							x.inv.Draws[j].Dead = true
						}
						if drew > 0 {
							x.ev("act< %s skipped-after-draw", a.Name)
						} else {
							x.ev("act< %s skipped-before-draw", a.Name)
						}
					} else {
						x.ev("act< %s aborted", a.Name)
					}
				}
			}()
			x.exec(a.Steps)
			done = true
			x.ev("act< %s completed", a.Name)
		}
	}
	if s.Inv != nil {
		acts[""] = func(t *rapid.T) {
			x := curX
			x.ev("check>")
			saved := x.where
			x.where = "invariant"
			defer func() { x.where = saved }()
			x.exec(s.Inv)
			x.ev("check<")
		}
	}
	if s.Shared {
		s.actsCache = acts
	}
run:
	x.inv.repeatCalled = true
	x.ev("repeat>")
	x.t.Repeat(acts)
}

// ---------------------------------------------------------------------------
// program generation

type progOpts struct {
	rejecting  bool // bias draws to rejection-heavy generators
	sites      int  // number of failif steps (distinct sites)
	nonFatal   bool // allow Error/Errorf/Fail kinds
	repeat     bool
	goroutines bool
	cleanups   bool
	failDen    int // hash-predicate failure probability is about 1/failDen
	onlyKinds  []int
	siblings   bool // force an "at least two elements" failure (equal sibling groups in the minimum)
	customFail bool // allow draws from a Custom generator whose function itself signals failures (on its inner T)
	skipFirst  int  // if > 0: skip about 1/skipFirst of all cases right after the first draw
	skipAfter  bool // add a skip after the failure steps (non-fatal failure followed by Skip)
	// every action of the state machine has a failure site of its own that is reached through a fatal T method
	// (Fatal/Fatalf/FailNow): several bugs that differ only in WHERE inside which action the test was stopped
	fatalActions bool
	recDepth     bool // failure sites are reached through a recursion whose depth depends on the data
}

func genProg(seed uint64, o progOpts) *Prog {
	r := newRng(seed, 0x9109)
	p := &Prog{Seed: seed}
	nd := r.between(1, 4)
	nInt := 0
	for i := 0; i < nd; i++ {
		var g *GX
		switch {
		case o.siblings && i == 0:
			// full-range elements: the minimal counterexample is [0, 0, ...] – equal sibling groups
			g = siblingGX(r)
		case o.customFail && r.chance(1, 3):
			g = gxCustomFail(r, o)
		case o.rejecting && r.chance(2, 3):
			g = gxRejecting(r)
		case r.chance(1, 2):
			g = gxInt(r, gxOpts{})
		default:
			g = buildGX(r, gxOpts{depth: r.intn(3)})
		}
		label := fmt.Sprintf("v%d", i)
		if r.chance(1, 4) {
			label = ""
		}
		p.Steps = append(p.Steps, Step{Op: "draw", GX: g, Label: label})
		if _, ok := exampleInt(g); ok {
			nInt++
		}
		if i == 0 && o.skipFirst > 0 {
			p.Steps = append(p.Steps, Step{Op: "skipif", Pred: hashPred(r, o.skipFirst)})
		}
		if r.chance(1, 6) {
			p.Steps = append(p.Steps, Step{Op: "skipif", Pred: hashPred(r, r.between(4, 12))})
		}
		if o.cleanups && r.chance(1, 3) {
			p.Steps = append(p.Steps, Step{Op: "cleanup", Clean: r.intn(nCleanKinds), Pred: hashPred(r, r.between(2, 8)), Site: r.intn(len(sites))})
		}
		if o.cleanups && r.chance(1, 4) {
			p.Steps = append(p.Steps, Step{Op: "ctx"})
		}
	}
	if o.repeat && (r.chance(1, 2) || o.fatalActions) {
		p.Steps = append(p.Steps, genRepeat(r, o))
	}
	if o.goroutines && r.chance(1, 3) {
		p.Steps = append(p.Steps, Step{Op: "go", N: r.between(2, 5), Kind: pick(r, []int{fkError, fkErrorf, fkFail}), Site: 0, Pred: hashPred(r, o.den(r))})
	}
	ns := o.sites
	if ns <= 0 {
		ns = 1
	}
	for s := 0; s < ns; s++ {
		kind := o.pickKind(r)
		pred := o.failPred(r, p, s == 0 && o.siblings)
		p.Steps = append(p.Steps, Step{Op: "failif", Pred: pred, Kind: kind, Site: s, RecDepth: o.recDepth && nInt > 0})
	}
	if o.skipAfter {
		p.Steps = append(p.Steps, Step{Op: "skipif", Pred: hashPred(r, 2)})
	}
	switch r.intn(8) {
	case 0, 1:
		p.Depth = 14
	case 2:
		p.Depth = 45 // deeper than any fixed small traceback budget
	}
	var ds []string
	for _, s := range p.Steps {
		ds = append(ds, s.describe())
	}
	p.Desc = strings.Join(ds, "; ")
	if p.Depth > 0 {
		p.Desc += fmt.Sprintf("; [failure sites %d frames deep]", p.Depth)
	}
	if r.chance(1, 4) {
		p.FailedGate = true
		p.Desc += "; [returns at once if t.Failed()]"
	}
	return p
}

func (o progOpts) den(r *rng) int {
	if o.failDen > 0 {
		return o.failDen
	}
	return r.between(3, 30)
}

func (o progOpts) pickKind(r *rng) int {
	if len(o.onlyKinds) > 0 {
		return pick(r, o.onlyKinds)
	}
	for {
		k := r.intn(nFailKinds)
		if kindNonFatal(k) && !o.nonFatal {
			continue
		}
		return k
	}
}

func hashPred(r *rng, den int) Pred {
	return Pred{Typ: "hash", M: uint64(den), Keep: 1, Salt: r.next()}
}

func siblingGX(r *rng) *GX {
	switch r.intn(3) {
	case 0:
		return &GX{Desc: "SliceOf(Int())", Gen: rapid.SliceOf(rapid.Int()).AsAny(), Check: func(any) string { return "" }}
	case 1:
		return &GX{Desc: "SliceOf(Uint8())", Gen: rapid.SliceOf(rapid.Uint8()).AsAny(), Check: func(any) string { return "" }}
	default:
		return &GX{Desc: "String()", Gen: rapid.String().AsAny(), Check: func(any) string { return "" }}
	}
}

// exampleInt samples the integer view of a generator through Example(seed)
// (deterministic) so that thresholds are sometimes, not always, exceeded.
func exampleInt(g *GX) (vals []int64, ok bool) {
	sampling = true
	defer func() { sampling = false }()
	defer func() {
		if recover() != nil {
			vals, ok = nil, false
		}
	}()
	for s := 0; s < 9; s++ {
		v := g.Gen.Example(s + 1)
		n, isInt := intView(v)
		if !isInt {
			return nil, false
		}
		vals = append(vals, n)
	}
	return vals, true
}

func exampleHasIntView(g *GX) (ok bool) {
	sampling = true
	defer func() { sampling = false }()
	defer func() {
		if recover() != nil {
			ok = false
		}
	}()
	_, ok = intView(g.Gen.Example(1))
	return ok
}

// failPred picks a predicate that is true for some, not all, test cases.
func (o progOpts) failPred(r *rng, p *Prog, sibling bool) Pred {
	if sibling {
		return Pred{Typ: "gt", I: 0, K: int64(r.between(1, 3))} // len >= 2..4
	}
	// candidates: draws with an integer view
	type cand struct {
		i    int
		vals []int64
	}
	var cands []cand
	n := -1
	for _, s := range p.Steps {
		if s.Op != "draw" {
			continue
		}
		vals, ok := exampleInt(s.GX)
		if !ok {
			if exampleHasIntView(s.GX) {
				n++ // counts for the index, but is not used as a threshold candidate
			}
			continue
		}
		n++
		cands = append(cands, cand{n, vals})
	}
	if len(cands) == 0 || r.chance(1, 4) {
		return hashPred(r, o.den(r))
	}
	c := pick(r, cands)
	// threshold between the median and the max of the sampled magnitudes
	abs := make([]int64, len(c.vals))
	for i, v := range c.vals {
		if v < 0 {
			v = -v
		}
		if v < 0 {
			v = 1<<63 - 1
		}
		abs[i] = v
	}
	for i := range abs {
		for j := i + 1; j < len(abs); j++ {
			if abs[j] < abs[i] {
				abs[i], abs[j] = abs[j], abs[i]
			}
		}
	}
	k := abs[len(abs)/2+r.intn(len(abs)-len(abs)/2)]
	if k == 0 {
		k = 1
	}
	switch r.intn(3) {
	case 0:
		return Pred{Typ: "absge", I: c.i, K: k}
	case 1:
		return Pred{Typ: "gt", I: c.i, K: k - 1}
	default:
		if k > 0 {
			return Pred{Typ: "absge", I: c.i, K: k/2 + 1}
		}
		return Pred{Typ: "gt", I: c.i, K: 0}
	}
}

func genRepeat(r *rng, o progOpts) Step {
	st := Step{Op: "repeat", Shared: r.chance(1, 3)}
	na := r.between(1, 4)
	if o.fatalActions {
		na = r.between(2, 4)
	}
	caseTwin := na >= 2 && r.chance(1, 4)
	for i := 0; i < na; i++ {
		a := Action{Name: fmt.Sprintf("A%d", i)}
		if caseTwin && i == 1 {
			a.Name = "a0" // two action names that differ only in case: still two actions, in one fixed order
		}
		// skip before drawing (state dependent or hash of earlier draws)
		if r.chance(1, 3) {
			a.Steps = append(a.Steps, Step{Op: "skipif", Pred: Pred{Typ: "ctr", K: int64(r.between(3, 40))}})
		}
		nd := r.between(0, 2)
		for d := 0; d < nd; d++ {
			g := gxInt(r, gxOpts{small: r.chance(1, 2)})
			if r.chance(1, 3) {
				// a draw that is often rejected inside the generator (retries, sometimes exhausted: the action
				// then counts as skipped before / after drawing depending on its position)
				g = filteredSmallInt(r)
			}
			a.Steps = append(a.Steps, Step{Op: "draw", GX: g, Label: fmt.Sprintf("a%d_%d", i, d)})
		}
		if nd > 0 && r.chance(1, 3) {
			a.Steps = append(a.Steps, Step{Op: "skipif", Pred: hashPred(r, r.between(2, 6))}) // skip after drawing
		}
		if o.fatalActions {
			// different densities: the failure found first is rarely the one with the smallest counterexample
			a.Steps = append(a.Steps, Step{Op: "failif", Pred: hashPred(r, pick(r, []int{3, 8, 20, 60})), Kind: pick(r, []int{fkFatal, fkFatalf, fkFailNow}), Site: (1 + i) % len(sites)})
		} else if r.chance(1, 3) {
			a.Steps = append(a.Steps, Step{Op: "failif", Pred: hashPred(r, o.den(r)*4), Kind: o.pickKind(r), Site: 3 + i%3})
		}
		if nd > 0 {
			a.Steps = append(a.Steps, Step{Op: "add"})
		}
		st.Acts = append(st.Acts, a)
	}
	if r.chance(2, 3) {
		st.Inv = []Step{}
		if r.chance(1, 2) {
			st.Inv = append(st.Inv, Step{Op: "failif", Pred: Pred{Typ: "ctr", K: int64(r.between(10, 120))}, Kind: o.pickKind(r), Site: 5})
		}
	}
	return st
}

// gxCustomFail is a Custom generator whose function signals a failure on its own (inner) T for some of the values
// it draws - the failure site is inside generator code that runs under rapid's retry loop.
func gxCustomFail(r *rng, o progOpts) *GX {
	kind := o.pickKind(r)
	site := 4 + r.intn(2)
	den := uint64(r.between(3, 40))
	salt := r.next()
	desc := fmt.Sprintf("CustomFail(IntRange(0,1000), %s at s%d if h%%%d<1)", failKindNames[kind], site, den)
	gen := rapid.Custom(func(t *rapid.T) any {
		x := curX
		v := rapid.IntRange(0, 1000).Draw(t, "cf")
		if mix(uint64(v), salt)%den == 0 && x != nil && !sampling {
			saved := x.where
			x.where = "custom"
			defer func() { x.where = saved }()
			sites[site](x, t, kind, fmt.Sprintf("boom k%d s%d c%d", kind, site, v))
		}
		return v
	})
	return &GX{Desc: desc, Gen: gen, Cmp: true, Int: true, Rej: true, Check: func(v any) string {
		if n, ok := v.(int); !ok || n < 0 || n > 1000 {
			return fmt.Sprintf("%s returned %v", desc, v)
		}
		return ""
	}}
}

// filteredSmallInt: IntRange(0,9) filtered to a few values: find() often needs several tries and sometimes gives up.
func filteredSmallInt(r *rng) *GX {
	lo := r.between(5, 9)
	desc := fmt.Sprintf("IntRange(0, 9).Filter(>=%d)", lo)
	return &GX{Desc: desc, Gen: rapid.IntRange(0, 9).Filter(func(v int) bool { return v >= lo }).AsAny(), Cmp: true, Int: true, Rej: true,
		Check: func(v any) string {
			if x, ok := v.(int); !ok || x < lo || x > 9 {
				return fmt.Sprintf("%s returned %v", desc, v)
			}
			return ""
		}}
}

func (p *Prog) body() func(x *X) {
	return func(x *X) {
		x.siteDepth = p.Depth
		if d := os.Getenv("VERIF_DEPTH"); d != "" { // experiments only
			fmt.Sscan(d, &x.siteDepth)
		}
		if p.FailedGate && x.t.Failed() {
			x.ev("Failed() reported true before anything was signalled on this T")
			return
		}
		x.exec(p.Steps)
	}
}
