package harness

// C10 — every invocation gets a live context and has all its cleanups run, LIFO.
// Events: per call of a property function or Custom generator function (a
// "bracket", each with its own T): begin, context samples, cleanup
// registrations, body end, cleanup runs.  Oracle: judgeBrackets.

import (
	"context"
	"fmt"
	"os"
	"testing"

	"pgregory.net/rapid"
)

func init() {
	monitors["C10"] = &monitor{scenarios: c10Scenarios, run: c10Run}
}

type c10ev struct {
	br   int
	kind string // begin ctx reg bodyend run
	id   int
	live bool // ctx events: context not cancelled
	note string
}

type c10bracket struct {
	id        int
	level     string // prop | custom
	phase     string
	ctxs      []context.Context
	nextID    int
	bodyEnd   bool
	parent    int
	armed     bool
	skipArmed bool
	// >= 0: the call was made by a cleanup function of that bracket (a nested invocation during its cleanup phase)
	inCleanupOf int
}

type c10rec struct {
	inCleanupGen *rapid.Generator[int]
	cleanupOf    int // 1 + id of the bracket one of whose cleanup functions is drawing right now (0: none)
	events       []c10ev
	brackets     []*c10bracket
	open         []int // stack of brackets whose body is running
}

func (r *c10rec) begin(level, phase string) *c10bracket {
	b := &c10bracket{id: len(r.brackets), level: level, phase: phase, parent: -1, inCleanupOf: r.cleanupOf - 1}
	if len(r.open) > 0 {
		b.parent = r.open[len(r.open)-1]
	}
	r.brackets = append(r.brackets, b)
	r.open = append(r.open, b.id)
	r.events = append(r.events, c10ev{br: b.id, kind: "begin"})
	return b
}

func (r *c10rec) bodyEnd(b *c10bracket, note string) {
	// sample all contexts at the very end of the body: still live
	for _, c := range b.ctxs {
		r.events = append(r.events, c10ev{br: b.id, kind: "ctx", live: c.Err() == nil, note: "at body end"})
	}
	b.bodyEnd = true
	r.events = append(r.events, c10ev{br: b.id, kind: "bodyend", note: note})
	for i := len(r.open) - 1; i >= 0; i-- {
		if r.open[i] == b.id {
			r.open = append(r.open[:i], r.open[i+1:]...)
			break
		}
	}
}

func (r *c10rec) ctx(b *c10bracket, t *rapid.T, note string) {
	c := t.Context()
	b.ctxs = append(b.ctxs, c)
	r.events = append(r.events, c10ev{br: b.id, kind: "ctx", live: c.Err() == nil, note: note})
}

type c10Key struct{}

const (
	c10None = iota
	c10Panic
	c10More
	c10Errorf
	c10Ctx
	c10Fatalf
	c10Skip
	c10Nil  // t.Cleanup(nil): nothing to run, and nothing registered before it may get lost
	c10Draw // the cleanup function draws from a Custom generator: that call is an invocation like any other (live context)
	nC10Kinds
)

func (r *c10rec) register(b *c10bracket, t *rapid.T, kind int, depth int) {
	if !b.armed && (kind == c10Panic || kind == c10Errorf || kind == c10Fatalf) {
		kind = c10None // failing cleanups only in the (data dependent) cases that are meant to fail
	}
	if kind == c10Skip && !b.skipArmed {
		kind = c10None // skipping cleanups in about one case in eight
	}
	if kind == c10Nil {
		t.Cleanup(nil)
		return
	}
	id := b.nextID
	b.nextID++
	r.events = append(r.events, c10ev{br: b.id, kind: "reg", id: id})
	t.Cleanup(func() {
		allCancelled := true
		for _, c := range b.ctxs {
			if c.Err() == nil {
				allCancelled = false
			}
		}
		r.events = append(r.events, c10ev{br: b.id, kind: "run", id: id, live: !allCancelled})
		switch kind {
		case c10Panic:
			panic(fmt.Sprintf("cleanup %d of bracket %d panics", id, b.id))
		case c10More:
			if depth < 2 {
				r.register(b, t, c10None, depth+1)
				r.register(b, t, c10Ctx, depth+1)
			}
		case c10Errorf:
			t.Errorf("cleanup %d errorf", id)
		case c10Fatalf:
			t.Fatalf("cleanup %d fatalf", id)
		case c10Skip:
			t.Skip("cleanup skips")
		case c10Draw:
			if r.inCleanupGen == nil {
				r.inCleanupGen = rapid.Custom(func(it *rapid.T) int {
					cb := r.begin("custom", "")
					defer r.bodyEnd(cb, "custom drawn in a cleanup")
					r.ctx(cb, it, "start of custom fn")
					r.register(cb, it, c10None, 0)
					return rapid.IntRange(0, 9).Draw(it, "in-cleanup")
				})
			}
			func() {
				prev := r.cleanupOf
				r.cleanupOf = b.id + 1
				defer func() { r.cleanupOf = prev }()
				r.inCleanupGen.Draw(t, "drawn by a cleanup")
			}()
		case c10Ctx:
			c := t.Context() // asked for during cleanup: must be born cancelled
			r.events = append(r.events, c10ev{br: b.id, kind: "ctx", live: c.Err() == nil, note: "obtained in cleanup"})
		}
	})
}

// judgeBrackets is the C10 oracle: one sequential pass over the global event
// sequence with a reference LIFO stack per bracket.
func judgeBrackets(r *c10rec) (string, int) {
	type st struct {
		stack []int
		ended bool
		ran   map[int]int
	}
	states := make([]*st, len(r.brackets))
	for i := range states {
		states[i] = &st{ran: map[int]int{}}
	}
	dirty := map[int]bool{} // brackets whose body ended but whose reference stack is not empty yet
	for i, e := range r.events {
		b := r.brackets[e.br]
		s := states[e.br]
		switch e.kind {
		case "begin":
			// whatever ended earlier must be completely cleaned up before anything new begins
			for id := range dirty {
				if id == b.inCleanupOf {
					continue // the call is made BY a cleanup function of that bracket: its remaining cleanups run afterwards
				}
				if ps := states[id]; true {
					return fmt.Sprintf("a new %s call began while %s bracket %d (%s) still had registered cleanups %v that did not run",
						b.level, r.brackets[id].level, id, r.brackets[id].phase, ps.stack), i
				}
			}
		case "ctx":
			if e.note == "obtained in cleanup" {
				if e.live {
					return fmt.Sprintf("Context() called inside a cleanup of %s bracket %d returned a live context", b.level, e.br), i
				}
			} else if !e.live {
				return fmt.Sprintf("context of %s bracket %d (%s) is not live during the call (%s)", b.level, e.br, b.phase, e.note), i
			}
		case "reg":
			s.stack = append(s.stack, e.id)
			if s.ended {
				dirty[e.br] = true
			}
		case "bodyend":
			s.ended = true
			if len(s.stack) > 0 {
				dirty[e.br] = true
			}
		case "run":
			if !s.ended {
				return fmt.Sprintf("cleanup %d of %s bracket %d ran before the call returned", e.id, b.level, e.br), i
			}
			if e.live {
				return fmt.Sprintf("cleanup %d of %s bracket %d ran while the bracket's context was not cancelled yet", e.id, b.level, e.br), i
			}
			s.ran[e.id]++
			if s.ran[e.id] > 1 {
				return fmt.Sprintf("cleanup %d of %s bracket %d ran %d times", e.id, b.level, e.br, s.ran[e.id]), i
			}
			if len(s.stack) == 0 || s.stack[len(s.stack)-1] != e.id {
				return fmt.Sprintf("cleanup %d of %s bracket %d ran out of LIFO order (reference stack %v)", e.id, b.level, e.br, s.stack), i
			}
			s.stack = s.stack[:len(s.stack)-1]
			if len(s.stack) == 0 {
				delete(dirty, e.br)
			}
		}
		// an event of an enclosing bracket: inner brackets that ended must be completely cleaned up
		if e.kind != "begin" && e.kind != "run" {
			for id := range dirty {
				if r.brackets[id].parent == e.br {
					return fmt.Sprintf("the enclosing call continued while Custom bracket %d still had cleanups %v to run", id, states[id].stack), i
				}
			}
		}
	}
	// end of the scenario: everything must be closed and all contexts cancelled
	for _, b := range r.brackets {
		s := states[b.id]
		if len(s.stack) > 0 {
			return fmt.Sprintf("%s bracket %d (%s): cleanups %v never ran", b.level, b.id, b.phase, s.stack), len(r.events)
		}
		if !s.ended {
			return fmt.Sprintf("%s bracket %d never ended", b.level, b.id), len(r.events)
		}
		for _, c := range b.ctxs {
			if c.Err() == nil {
				return fmt.Sprintf("a context of %s bracket %d (%s) was never cancelled", b.level, b.id, b.phase), len(r.events)
			}
		}
	}
	return "", 0
}

func c10Scenarios(cfg runCfg) []Scenario {
	var out []Scenario
	for i := 0; i < cfg.n(8000, 40); i++ {
		if !cfg.mine(i) {
			continue
		}
		fam := "check"
		switch mix(cfg.seed, 1010, uint64(i)) % 8 {
		case 6:
			fam = "example"
		case 7:
			fam = "fuzz"
		}
		if mix(cfg.seed, 1011, uint64(i))%40 == 0 {
			fam = "goexit"
		}
		if mix(cfg.seed, 1011, uint64(i))%40 == 1 {
			fam = "nested"
		}
		out = append(out, Scenario{Family: fam, Seed: mix(cfg.seed, 10, uint64(i))})
	}
	return out
}

var c10Endings = []string{"return", "Fatalf", "panic", "Skip", "Errorf"}

// c10Custom builds a Custom generator whose function registers cleanups, samples its context and may be retried.
func c10Custom(rec *c10rec, r *rng, endings ...string) *rapid.Generator[any] {
	nclean := r.intn(4)
	kinds := make([]int, nclean)
	for i := range kinds {
		kinds[i] = pick(r, []int{c10None, c10None, c10Panic, c10More, c10Ctx, c10Errorf, c10Nil})
	}
	if len(endings) == 0 {
		endings = []string{"return", "return", "return", "Skip", "Errorf", "Fatalf", "panic"}
	}
	ending := pick(r, endings)
	den := uint64(pick(r, []int{2, 4, 10, 40}))
	salt := r.next()
	return rapid.Custom(func(t *rapid.T) any {
		b := rec.begin("custom", "")
		defer rec.bodyEnd(b, "custom")
		rec.ctx(b, t, "start of custom fn")
		v := rapid.IntRange(0, 50).Draw(t, "cv")
		b.armed = mix(uint64(v), salt)%den == 0 || mix(uint64(v), salt, 1)%den == 0
		for i, k := range kinds {
			rec.register(b, t, k, 0)
			if i == 0 {
				rec.ctx(b, t, "after first registration")
			}
		}
		if mix(uint64(v), salt)%den == 0 {
			switch ending {
			case "Skip":
				t.Skip("retry custom")
			case "Errorf":
				t.Errorf("custom errorf")
			case "Fatalf":
				t.Fatalf("custom fatalf")
			case "panic":
				panic("custom panic")
			}
		}
		return v
	}).AsAny()
}

func c10Body(rec *c10rec, seed uint64) func(t *rapid.T) {
	r := newRng(seed, 0xc10)
	nBody := r.intn(7)
	kinds := make([]int, nBody)
	for i := range kinds {
		kinds[i] = r.intn(nC10Kinds)
		if kinds[i] == c10Fatalf && r.chance(2, 3) {
			kinds[i] = c10None
		}
	}
	var customs []*rapid.Generator[any]
	for i, n := 0, r.intn(3); i < n; i++ {
		g := c10Custom(rec, r)
		switch r.intn(3) {
		case 0:
			g = g.Filter(func(v any) bool { return v.(int)%3 != 0 }) // retried attempts
		case 1:
			g = rapid.SliceOfNDistinct(g, 0, 3, func(v any) int { return v.(int) % 4 }).AsAny()
		}
		customs = append(customs, g)
	}
	ending := pick(r, c10Endings)
	den := uint64(pick(r, []int{2, 5, 20, 80, 300}))
	salt := r.next()
	withRepeat := r.chance(1, 4)
	return func(t *rapid.T) {
		vs := rapid.VerifStreamOf(t)
		phase := (&Inv{Kind: vs.Kind, Persist: vs.Persist}).phase()
		b := rec.begin("prop", phase)
		defer rec.bodyEnd(b, "prop")
		if r2 := mix(seed, 1); r2%3 != 0 {
			rec.ctx(b, t, "start of property")
		}
		x := rapid.Uint16().Draw(t, "x")
		b.armed = mix(uint64(x), salt)%den == 0 || mix(uint64(x), salt, 1)%den == 0
		b.skipArmed = mix(uint64(x), salt, 2)%8 == 0
		for i, k := range kinds {
			rec.register(b, t, k, 0)
			if i < len(customs) {
				customs[i].Draw(t, fmt.Sprintf("c%d", i))
			}
			if i == 1 {
				rec.ctx(b, t, "mid body")
			}
		}
		for i := len(kinds); i < len(customs); i++ {
			customs[i].Draw(t, fmt.Sprintf("c%d", i))
		}
		if withRepeat {
			t.Repeat(map[string]func(*rapid.T){
				"reg": func(at *rapid.T) {
					if rapid.Bool().Draw(at, "skip") {
						at.Skip("action skipped")
					}
					rec.register(b, at, c10None, 0)
				},
				"ctx": func(at *rapid.T) { rec.ctx(b, at, "in action") },
				"regskip": func(at *rapid.T) {
					// registered by an action that then turns out not to apply: still a cleanup of this invocation
					// (runs once, after the property returned, in LIFO order with the others)
					rec.register(b, at, c10None, 0)
					if rapid.Bool().Draw(at, "skip") {
						at.Skip("action skipped after registering a cleanup")
					}
				},
			})
		}
		if mix(uint64(x), salt)%den == 0 {
			switch ending {
			case "Fatalf":
				t.Fatalf("body fatalf %d", x)
			case "panic":
				panic(fmt.Sprintf("body panic %d", x))
			case "Skip":
				t.Skip("body skip")
			case "Errorf":
				t.Errorf("body errorf %d", x)
			}
		}
	}
}

func c10Run(t *testing.T, sc Scenario, res *Result) {
	defer os.RemoveAll("testdata")
	r := newRng(sc.Seed, 0x10c)
	rec := &c10rec{}
	detail := map[string]any{}
	switch sc.Family {
	case "check":
		fl := map[string]string{"rapid.checks": pick(r, []string{"5", "30", "100"}), "rapid.shrinktime": pick(r, []string{"0s", "30ms", "300ms"}), "rapid.seed": fmt.Sprint(sc.Seed%100000 + 1)}
		if r.chance(1, 2) {
			fl["rapid.nofailfile"] = "true"
		}
		setFlags(fl)
		tb := newTB(fmt.Sprintf("C10_%x", sc.Seed&0xffff))
		if r.chance(1, 3) {
			// a TB with a Context of its own (as *testing.T has since Go 1.24): the test cases' contexts are derived from it
			parent, cancelParent := context.WithCancel(context.WithValue(context.Background(), c10Key{}, sc.Seed))
			defer cancelParent()
			runCheckAs(tb, ctxTB{tb, parent}, c10Body(rec, sc.Seed))
			res.inc("checks_on_a_TB_with_Context")
			for _, b := range rec.brackets {
				for _, c := range b.ctxs {
					if c.Value(c10Key{}) == sc.Seed {
						res.inc("contexts_derived_from_the_TB_context")
					}
				}
			}
		} else {
			runCheck(tb, c10Body(rec, sc.Seed))
		}
		detail["flags"] = fl
		detail["tb"] = tb.brief()
		if tb.escaped != nil {
			res.violate(sc, "c10/escape", fmt.Sprintf("panic escaped Check: %v", tb.escaped), detail)
		}
		res.inc("checks_run")
		if rp := parseReport(tb); rp.FailFile != "" {
			// the failure was persisted: the next Check of the same test replays the fail file first (another kind of invocation)
			before := len(rec.brackets)
			tb2 := newTB(tb.name)
			runCheck(tb2, c10Body(rec, sc.Seed))
			res.inc("fail_file_replay_runs")
			res.count("brackets_in_fail_file_replay_runs", int64(len(rec.brackets)-before))
		}
	case "nested":
		// a Check inside a property, with the enclosing *rapid.T as its TB: every invocation of the inner property
		// is an invocation like any other (own context, cancelled when it returns; own cleanups)
		setFlags(map[string]string{"rapid.checks": "4", "rapid.nofailfile": "true", "rapid.shrinktime": "0s", "rapid.seed": fmt.Sprint(sc.Seed%100000 + 1)})
		inner := c10Body(rec, sc.Seed)
		tb := newTB(fmt.Sprintf("C10n_%x", sc.Seed&0xffff))
		runCheck(tb, func(ot *rapid.T) {
			b := rec.begin("prop", "outer")
			defer rec.bodyEnd(b, "outer")
			rec.ctx(b, ot, "start of the outer property")
			rec.register(b, ot, c10None, 0)
			rapid.Uint8().Draw(ot, "outer")
			rapid.Check(ot, inner)
		})
		detail["tb"] = tb.brief()
		if tb.escaped != nil {
			res.violate(sc, "c10/escape", fmt.Sprintf("panic escaped Check: %v", tb.escaped), detail)
		}
		res.inc("nested_check_scenarios")
	case "goexit":
		// the invocation ends by runtime.Goexit: the property calls Skip/FailNow of the ENCLOSING *testing.T
		// inside rapid.Check (or MakeFuzz); its cleanups and context must still be wound up
		setFlags(map[string]string{"rapid.checks": "10", "rapid.nofailfile": "true"})
		body := c10Body(rec, sc.Seed)
		calls := 0
		how := pick(r, []string{"Skip", "FailNow", "SkipNow"})
		at := r.between(1, 4)
		inCleanup := mix(sc.Seed, 0x90e)%3 == 0
		if inCleanup {
			res.inc("goexit_from_inside_a_cleanup")
		}
		t.Run("goexit", func(s *testing.T) {
			prop := func(rt *rapid.T) {
				calls++
				if calls == at {
					b := rec.begin("prop", "generate")
					defer rec.bodyEnd(b, "goexit")
					rec.ctx(b, rt, "before goexit")
					rec.register(b, rt, c10None, 0)
					rec.register(b, rt, c10Ctx, 0)
					if inCleanup {
						// the goroutine is ended from INSIDE a cleanup function (the enclosing test is stopped there):
						// the cleanup functions registered before it still have to run
						rt.Cleanup(func() {
							switch how {
							case "Skip":
								s.Skip("enclosing test skipped from inside a cleanup function")
							case "SkipNow":
								s.SkipNow()
							default:
								s.FailNow()
							}
						})
						rec.register(b, rt, c10More, 0)
						return
					}
					rec.register(b, rt, c10More, 0)
					switch how {
					case "Skip":
						s.Skip("enclosing test skipped from inside the property")
					case "SkipNow":
						s.SkipNow()
					default:
						s.FailNow()
					}
				}
				body(rt)
			}
			if r.chance(1, 3) {
				rapid.MakeFuzz(prop)(s, hostileBytes(newRng(sc.Seed, 9), 30))
			} else {
				rapid.Check(s, prop)
			}
		})
		res.inc("goexit_runs")
	case "example":
		g := c10Custom(rec, r, "return", "Skip", "Errorf", "panic")
		for s := 0; s < 12; s++ {
			func() {
				defer func() { _ = recover() }() // Example panics when its function fails; brackets must still be closed
				g.Example(s)
			}()
			res.inc("example_calls")
		}
	case "fuzz":
		fz := rapid.MakeFuzz(c10Body(rec, sc.Seed))
		fr := newRng(sc.Seed, 5)
		for i := 0; i < 40; i++ {
			in := hostileBytes(fr, 60)
			t.Run("f", func(s *testing.T) { fz(s, in) })
			res.inc("fuzz_cases")
		}
	}
	res.count("brackets", int64(len(rec.brackets)))
	res.count("events", int64(len(rec.events)))
	nreg, nrun := 0, 0
	for _, e := range rec.events {
		switch e.kind {
		case "reg":
			nreg++
		case "run":
			nrun++
		}
	}
	res.count("cleanups_registered", int64(nreg))
	res.count("cleanups_run", int64(nrun))
	for _, b := range rec.brackets {
		res.inc("brackets:" + b.level + ":" + sc.Family + ":" + b.phase)
		res.count("contexts", int64(len(b.ctxs)))
	}
	if c, at := judgeBrackets(rec); c != "" {
		lo := at - 8
		if lo < 0 {
			lo = 0
		}
		hi := at + 2
		if hi > len(rec.events) {
			hi = len(rec.events)
		}
		var ctxt []string
		for _, e := range rec.events[lo:hi] {
			ctxt = append(ctxt, fmt.Sprintf("b%d %s %d live=%v %s", e.br, e.kind, e.id, e.live, e.note))
		}
		detail["events_around"] = ctxt
		res.violate(sc, "c10/"+firstWords(c, 5), c, detail)
	}
	// distinct bracket shapes seen (one pass)
	shapes := make([]string, len(rec.brackets))
	for _, b := range rec.brackets {
		shapes[b.id] = b.level + "/" + b.phase
	}
	for _, e := range rec.events {
		if len(shapes[e.br]) < 120 {
			shapes[e.br] += " " + e.kind
		}
	}
	for _, sh := range shapes {
		res.nontrivial(sh)
	}
	if res.wantSample() && len(rec.brackets) > 3 && r.chance(1, 10) {
		var evs []string
		for i, e := range rec.events {
			if i >= 30 {
				break
			}
			evs = append(evs, fmt.Sprintf("b%d:%s:%d", e.br, e.kind, e.id))
		}
		res.sample(map[string]any{"family": sc.Family, "brackets": len(rec.brackets), "first_events": evs})
	}
}
