package harness

// C12 — minimisation reaches the exact boundary on threshold properties.

import (
	"errors"
	"flag"
	"fmt"
	"math"
	"reflect"
	"testing"
	"time"
	"unicode/utf8"

	"pgregory.net/rapid"
)

func init() {
	monitors["C12"] = &monitor{scenarios: c12Scenarios, run: c12Run}
}

type intKind struct {
	name   string
	gen    *rapid.Generator[any]
	signed bool
	bits   int
}

var intKinds = []intKind{
	{"Int", rapid.Int().AsAny(), true, 64}, {"Int8", rapid.Int8().AsAny(), true, 8}, {"Int16", rapid.Int16().AsAny(), true, 16},
	{"Int32", rapid.Int32().AsAny(), true, 32}, {"Int64", rapid.Int64().AsAny(), true, 64},
	{"Uint", rapid.Uint().AsAny(), false, 64}, {"Uint8", rapid.Uint8().AsAny(), false, 8}, {"Uint16", rapid.Uint16().AsAny(), false, 16},
	{"Uint32", rapid.Uint32().AsAny(), false, 32}, {"Uint64", rapid.Uint64().AsAny(), false, 64}, {"Byte", rapid.Byte().AsAny(), false, 8},
}

// thresholds of a kind: (value, direction) encoded as strings "ge:<v>" / "le:<v>" (signed) and "uge:<v>" (unsigned)
func c12Thresholds(k intKind, r *rng) []string {
	var out []string
	if k.signed {
		max := int64(1)<<(k.bits-1) - 1
		min := -max - 1
		add := func(v int64) {
			if v < min || v > max {
				return
			}
			if v >= 0 {
				out = append(out, fmt.Sprintf("ge:%d", v))
			}
			if v <= 0 {
				out = append(out, fmt.Sprintf("le:%d", v))
			}
		}
		for j := 0; j <= k.bits-2; j++ {
			p := int64(1) << j
			for _, d := range []int64{-1, 0, 1} {
				add(p + d)
				add(-(p + d))
			}
		}
		for _, v := range []int64{max, max - 1, max - 2, min, min + 1, min + 2, 0, 3, -3, 5, -5, 100, -100} {
			add(v)
		}
		// thresholds on the far side of zero: the failing value closest to zero is 0 itself
		for _, v := range []int64{1, 7, 1000, max / 3, max} {
			if v <= max {
				out = append(out, fmt.Sprintf("le:%d", v), fmt.Sprintf("ge:%d", -v))
			}
		}
		for j := 0; j < 6; j++ {
			v := int64(r.next()) >> uint(64-k.bits) >> uint(r.intn(k.bits))
			add(v)
		}
	} else {
		max := uint64(math.MaxUint64)
		if k.bits < 64 {
			max = uint64(1)<<k.bits - 1
		}
		add := func(v uint64) {
			if v <= max {
				out = append(out, fmt.Sprintf("uge:%d", v))
			}
		}
		for j := 0; j < k.bits; j++ {
			p := uint64(1) << j
			add(p - 1)
			add(p)
			add(p + 1)
		}
		for _, v := range []uint64{max, max - 1, max - 2, 0, 3, 5, 100} {
			add(v)
		}
		for j := 0; j < 6; j++ {
			add(r.next() >> uint(64-k.bits) >> uint(r.intn(k.bits)))
		}
	}
	return out
}

func c12Scenarios(cfg runCfg) []Scenario {
	var out []Scenario
	i := 0
	seeds := 1
	step := 3
	if cfg.thorough() {
		seeds, step = 25, 1
	}
	for s := 0; s < seeds; s++ {
		for ki, k := range intKinds {
			ths := c12Thresholds(k, newRng(cfg.seed, 12, uint64(ki)))
			for ti, th := range ths {
				var v int64
				far := false
				if _, err := fmt.Sscanf(th, "le:%d", &v); err == nil && v > 0 {
					far = true
				} else if _, err := fmt.Sscanf(th, "ge:%d", &v); err == nil && v < 0 {
					far = true
				}
				if far {
					// zero-crossing thresholds: all of them, with and without -short
					for _, short := range []string{"0", "1"} {
						if cfg.mine(i) {
							out = append(out, Scenario{Family: "threshold", Seed: mix(cfg.seed, 12, 3, uint64(s), uint64(i)), K: ki, S: th, X: map[string]string{"short": short}})
						}
						i++
					}
					continue
				}
				if (ti+ki+int(cfg.seed))%step != 0 {
					continue
				}
				if cfg.mine(i) {
					out = append(out, Scenario{Family: "threshold", Seed: mix(cfg.seed, 12, uint64(s), uint64(i)), K: ki, S: th})
				}
				i++
			}
		}
		// enough time for minimisation, but the search for the first failure is slow (lazy one-time setup in
		// the first test case takes longer than -rapid.shrinktime): the budget is for minimisation alone
		for j := 0; j < 16; j++ {
			if cfg.mine(i) {
				out = append(out, Scenario{Family: "threshold", Seed: mix(cfg.seed, 12, 7, uint64(s), uint64(j)), K: 4, S: fmt.Sprintf("ge:%d", int64(1)<<uint(20+2*j)+int64(j)), X: map[string]string{"slow": "1"}})
			}
			i++
		}
		// thresholds above 2^63 of the 64-bit unsigned kinds, over many seeds: about one seed in a hundred finds its first
		// counterexample as a genuine 64-bit value (not through "overflow to max") and is then minimised by bisection alone
		if s == 0 {
			for j := 0; j < cfg.n(400, 10); j++ {
				if cfg.mine(i) {
					ki := []int{5, 9}[j%2] // Uint, Uint64
					th := []string{"uge:9223372036854775815", "uge:9223373136366403585", "uge:13835058055282163719"}[j%3]
					out = append(out, Scenario{Family: "threshold", Seed: mix(cfg.seed, 12, 9, uint64(j)), K: ki, S: th, X: map[string]string{"plain": "1"}})
				}
				i++
			}
		}
		for _, coll := range []string{"slice-int", "slice-uint8", "string", "map"} {
			for k := 0; k <= 32; k++ {
				if (k+int(cfg.seed))%step != 0 && k != 0 && k != 32 {
					continue
				}
				if cfg.mine(i) {
					out = append(out, Scenario{Family: "collection", Seed: mix(cfg.seed, 12, 5, uint64(s), uint64(i)), K: k, S: coll})
				}
				i++
			}
		}
	}
	return out
}

type c12Err struct {
	Code  int
	Cause error
	At    *[]int
}

func (e *c12Err) Error() string { return fmt.Sprintf("state error %d: %v", e.Code, e.Cause) }

func c12Run(t *testing.T, sc Scenario, res *Result) {
	fl := map[string]string{"rapid.checks": "200000", "rapid.nofailfile": "true", "rapid.shrinktime": "20s", "rapid.seed": fmt.Sprint(sc.Seed%1000003 + 1)}
	var final any
	// how the property fails: Fatalf, a panic whose message depends on the data, or a runtime error whose text does
	mode := int(mix(sc.Seed, 0x12) % 5)
	failNow := func(x *X, v any) {
		switch mode {
		case 0:
			x.fail(fkFatalf, 0)
		case 1:
			x.inv.Intents = append(x.inv.Intents, Intent{Kind: "panic-data", Panic: true, Msg: fmt.Sprintf("bad value %v", v), Where: "body"})
			panic(fmt.Sprintf("bad value %v", v))
		case 3:
			// an error value built by this very execution (fresh allocations, wrapped cause): same text every time
			e := fmt.Errorf("limit check: %w", errors.New("over the limit"))
			x.inv.Intents = append(x.inv.Intents, Intent{Kind: "panic-wrapped-error", Panic: true, Msg: e.Error(), Where: "body"})
			panic(e)
		case 4:
			// a pointer to a struct holding further pointers
			e := &c12Err{Code: 7, Cause: errors.New("over the limit"), At: &[]int{1, 2, 3}}
			x.inv.Intents = append(x.inv.Intents, Intent{Kind: "panic-struct-pointer", Panic: true, Msg: fmt.Sprint(e), Where: "body"})
			panic(e)
		default:
			n, _ := intView(v)
			idx := int(uint64(n)%5) + 3
			x.inv.Intents = append(x.inv.Intents, Intent{Kind: "rt-index-data", Panic: true, Msg: fmt.Sprintf("runtime error: index out of range [%d] with length 3", idx), Where: "body"})
			_ = make([]int, 3)[idx+zeroInt]
		}
	}
	res.inc(fmt.Sprintf("failure_mode:%d", mode))
	var body func(x *X)
	var want string
	var isExact func(v any) (bool, string)
	switch sc.Family {
	case "threshold":
		k := intKinds[sc.K]
		var dir string
		var sv int64
		var uv uint64
		if _, err := fmt.Sscanf(sc.S, "uge:%d", &uv); err == nil {
			dir = "uge"
		} else if _, err := fmt.Sscanf(sc.S, "ge:%d", &sv); err == nil {
			dir = "ge"
		} else {
			fmt.Sscanf(sc.S, "le:%d", &sv)
			dir = "le"
		}
		want = fmt.Sprintf("%s %s", k.name, sc.S)
		// the usual shape of a property: draw all inputs, then assert - other values are drawn before and/or after the
		// deciding integer (they do not influence the outcome)
		extra := int(mix(sc.Seed, 0xe7a) % 4)
		if sc.X["plain"] == "1" {
			extra = 0
		}
		res.inc(fmt.Sprintf("threshold_extra_draws:%d", extra))
		body = func(x *X) {
			if extra&1 != 0 {
				x.draw(rapid.Bool().AsAny(), "before")
				x.draw(rapid.StringN(0, 3, -1).AsAny(), "before2")
			}
			v := x.draw(k.gen, "v")
			final = v
			if extra&2 != 0 {
				x.draw(rapid.SliceOf(rapid.Byte()).AsAny(), "after")
				x.draw(rapid.Int16().AsAny(), "after2")
			}
			rv := reflect.ValueOf(v)
			switch dir {
			case "uge":
				if rv.Uint() >= uv {
					failNow(x, v)
				}
			case "ge":
				if rv.Int() >= sv {
					failNow(x, v)
				}
			default:
				if rv.Int() <= sv {
					failNow(x, v)
				}
			}
		}
		isExact = func(v any) (bool, string) {
			rv := reflect.ValueOf(v)
			if dir == "uge" {
				return rv.Uint() == uv, fmt.Sprint(uv)
			}
			want := sv
			if (dir == "le" && sv > 0) || (dir == "ge" && sv < 0) {
				want = 0 // zero fails, too, and nothing is closer to zero
			}
			return rv.Int() == want, fmt.Sprint(want)
		}
	case "collection":
		var g *rapid.Generator[any]
		switch sc.S {
		case "slice-int":
			g = rapid.SliceOf(rapid.Int()).AsAny()
		case "slice-uint8":
			g = rapid.SliceOf(rapid.Uint8()).AsAny()
		case "string":
			g = rapid.String().AsAny()
		default:
			g = rapid.MapOf(rapid.Int(), rapid.String()).AsAny()
		}
		want = fmt.Sprintf("%s with at least %d elements", sc.S, sc.K)
		count := func(v any) int {
			if s, ok := v.(string); ok {
				return utf8.RuneCountInString(s)
			}
			return reflect.ValueOf(v).Len()
		}
		extra := int(mix(sc.Seed, 0xe7b) % 4)
		res.inc(fmt.Sprintf("collection_extra_draws:%d", extra))
		body = func(x *X) {
			if extra&1 != 0 {
				x.draw(rapid.Uint8().AsAny(), "before")
			}
			v := x.draw(g, "c")
			final = v
			if extra&2 != 0 {
				x.draw(rapid.Int64().AsAny(), "after")
				x.draw(rapid.SliceOfN(rapid.Bool(), 0, 3).AsAny(), "after2")
			}
			if count(v) >= sc.K {
				failNow(x, v)
			}
		}
		isExact = func(v any) (bool, string) {
			if count(v) != sc.K {
				return false, fmt.Sprintf("exactly %d elements", sc.K)
			}
			switch s := v.(type) {
			case []int:
				for _, e := range s {
					if e != 0 {
						return false, "all elements zero"
					}
				}
			case []uint8:
				for _, e := range s {
					if e != 0 {
						return false, "all elements zero"
					}
				}
			}
			return true, ""
		}
	}
	if (sc.X["short"] == "1" || (sc.X["short"] == "" && mix(sc.Seed, 0x5407)%5 == 0)) && sc.X["slow"] != "1" {
		// -short is a configuration, too (a fifth of the checks, half of the steps): exactness must not depend on it
		if err := flag.Set("test.short", "true"); err == nil {
			defer flag.Set("test.short", "false")
			fl["rapid.checks"] = "1000000" // divided by 5 under -short
			res.inc("short_mode_runs")
		}
	}
	if mix(sc.Seed, 0x7e5b)%6 == 0 {
		fl["rapid.v"] = "true" // verbose logging must not change what is presented
		res.inc("verbose_runs")
	}
	if sc.X["slow"] == "1" {
		fl["rapid.shrinktime"] = "1s"
		inner, first := body, true
		body = func(x *X) {
			if first {
				first = false
				time.Sleep(1200 * time.Millisecond)
			}
			inner(x)
		}
		res.inc("slow_search_runs")
	}
	start := time.Now()
	cr := runBody(body, runOpts{name: "C12", flags: fl, lean: true})
	dur := time.Since(start)
	res.inc("checks_run")
	res.inc("family:" + sc.Family)
	if cr.rp.Kind == "ok" {
		res.inc("never_found")
		res.inconclusive("threshold never reached within 200000 cases: " + want)
		return
	}
	if cr.rp.Kind != "failed" && cr.rp.Kind != "panic" {
		res.violate(sc, "c12/verdict", "unexpected verdict "+cr.rp.Kind+": "+clip(cr.rp.Raw, 200), map[string]any{"want": want})
		return
	}
	if dur > 15*time.Second {
		res.inconclusive("minimisation still running near the time limit: " + want)
		return
	}
	res.inc("minimised")
	res.nontrivial(want)
	ok, exp := isExact(final)
	if !ok {
		res.violate(sc, "c12/inexact/"+sc.Family, fmt.Sprintf("reported counterexample is %s, the exact boundary is %s (%s)", clip(canon(final), 200), exp, want),
			map[string]any{"property": want, "reported": clip(canon(final), 400), "expected": exp, "flags": fl, "tb": cr.tb.brief(), "invocations": len(cr.log.Invs)})
	}
	if res.wantSample() && mix(sc.Seed)%40 == 0 {
		res.sample(map[string]any{"property": want, "reported": clip(canon(final), 120), "found_after_cases": cr.rp.N, "invocations": len(cr.log.Invs)})
	}
}
