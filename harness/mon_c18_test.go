package harness

// C18 — generators can reach every allowed value, hit the edges, and use fresh seeds.

import (
	"fmt"
	"math"
	"math/bits"
	mrand "math/rand"
	"os"
	"reflect"
	"sync"
	"testing"

	"pgregory.net/rapid"
)

func init() {
	monitors["C18"] = &monitor{scenarios: c18Scenarios, run: c18Run}
}

func c18Scenarios(cfg runCfg) []Scenario {
	var out []Scenario
	i := 0
	add := func(sc Scenario) {
		if cfg.mine(i) {
			out = append(out, sc)
		}
		i++
	}
	// (a) 8-bit ranges: quick every 16th, thorough all
	step := 4
	if cfg.thorough() {
		step = 1
	}
	n := 0
	for a := 0; a < 256; a++ {
		for b := a; b < 256; b++ {
			if (n+int(cfg.seed))%step == 0 {
				add(Scenario{Family: "all8", Seed: mix(cfg.seed, 18, uint64(n)), N: a, K: b, S: "uint8"})
				add(Scenario{Family: "all8", Seed: mix(cfg.seed, 18, 1, uint64(n)), N: a - 128, K: b - 128, S: "int8"})
				if n%8 == 0 {
					add(Scenario{Family: "all8", Seed: mix(cfg.seed, 18, 2, uint64(n)), N: a, K: b, S: "byte"})
				}
			}
			n++
		}
	}
	// (b) wide ranges: bit-length bands
	for j := 0; j < cfg.n(1600, 40); j++ {
		add(Scenario{Family: "bands", Seed: mix(cfg.seed, 18, 3, uint64(j))})
	}
	for j := 0; j < cfg.n(160, 40); j++ {
		add(Scenario{Family: "floatbands", Seed: mix(cfg.seed, 18, 4, uint64(j))})
	}
	// (a') tiny float ranges, every representable value (ULP level)
	for j := 0; j < cfg.n(1600, 40); j++ {
		add(Scenario{Family: "floatulp", Seed: mix(cfg.seed, 18, 8, uint64(j))})
	}
	// (b') every integer kind x {full, Min, Max} form: type extremes, zero and the top bit band of the kind
	for j := 0; j < cfg.n(360, 40); j++ {
		add(Scenario{Family: "kinds", Seed: mix(cfg.seed, 18, 9, uint64(j)), K: j % 12, N: (j / 12) % 3})
	}
	// (c) edges
	for j := 0; j < cfg.n(6400, 40); j++ {
		add(Scenario{Family: "edges", Seed: mix(cfg.seed, 18, 5, uint64(j))})
	}
	// (d) freshness
	for j := 0; j < cfg.n(160, 40); j++ {
		add(Scenario{Family: "fresh", Seed: mix(cfg.seed, 18, 6, uint64(j))})
	}
	for j := 0; j < cfg.n(32, 16); j++ {
		add(Scenario{Family: "fresh-concurrent", Seed: mix(cfg.seed, 18, 7, uint64(j))})
	}
	return out
}

// drawMany draws n values from g through real Checks (PRNG streams, 500 draws per test case).
func drawMany(g *rapid.Generator[any], n int, seed uint64, visit func(v any) bool) {
	const chunk = 500
	cases := (n + chunk - 1) / chunk
	setFlags(map[string]string{"rapid.checks": fmt.Sprint(cases), "rapid.seed": fmt.Sprint(seed%1000003 + 1), "rapid.nofailfile": "true"})
	tb := newTB("C18")
	done := false
	runCheck(tb, func(t *rapid.T) {
		if done {
			return
		}
		for i := 0; i < chunk; i++ {
			if !visit(g.Draw(t, "")) {
				done = true
				return
			}
		}
	})
}

type sideRange struct {
	lo, hi uint64 // offsets (magnitudes) covered on this side
}

// requiredBands lists the bit-length bands that must be reachable for offsets in [0, hi]: band 0 is the offset 0
// itself, band l holds the offsets of bit length l, [2^(l-1), 2^l-1].  A band the range covers completely is
// required; the topmost, partially covered band only when the range covers at least half of it and it holds at
// least two values besides the range maximum (a sparsely covered top band is legitimately rare under
// uniform-within-width generation and is only recorded).
func requiredBands(hi uint64) []int {
	out := []int{0}
	for l := 1; l <= 64; l++ {
		lo := uint64(1) << (l - 1)
		if hi < lo {
			break
		}
		top := lo<<1 - 1
		if l == 64 {
			top = math.MaxUint64
		}
		if hi >= top {
			out = append(out, l)
			continue
		}
		cnt := hi - lo + 1
		if cnt >= 3 && cnt >= lo/2 {
			out = append(out, l)
		}
	}
	return out
}

func c18Run(t *testing.T, sc Scenario, res *Result) {
	r := newRng(sc.Seed, 0xc18)
	switch sc.Family {
	case "all8":
		var g *rapid.Generator[any]
		switch sc.S {
		case "uint8":
			g = rapid.Uint8Range(uint8(sc.N), uint8(sc.K)).AsAny()
		case "byte":
			g = rapid.ByteRange(byte(sc.N), byte(sc.K)).AsAny()
		default:
			g = rapid.Int8Range(int8(sc.N), int8(sc.K)).AsAny()
		}
		want := sc.K - sc.N + 1
		seen := map[int64]bool{}
		draws := 0
		drawMany(g, 200000, sc.Seed, func(v any) bool {
			draws++
			n, _ := intView(v)
			seen[n] = true
			return len(seen) < want
		})
		res.inc("ranges8")
		res.count("draws", int64(draws))
		res.max("max:draws_to_cover_8bit_range", int64(draws))
		res.nontrivial(fmt.Sprintf("%s[%d,%d]", sc.S, sc.N, sc.K))
		if len(seen) < want {
			var missing []int
			for v := sc.N; v <= sc.K && len(missing) < 10; v++ {
				if !seen[int64(v)] {
					missing = append(missing, v)
				}
			}
			res.violate(sc, "c18/unreachable8/"+sc.S, fmt.Sprintf("%sRange(%d, %d): values %v never produced in %d draws", sc.S, sc.N, sc.K, missing, draws), nil)
		}
		for v := range seen {
			if v < int64(sc.N) || v > int64(sc.K) {
				res.violate(sc, "c18/outside8", fmt.Sprintf("%sRange(%d, %d) produced %d", sc.S, sc.N, sc.K, v), nil)
			}
		}

	case "bands":
		// a range of a wide kind placed at a type extreme or at random
		signed := r.chance(1, 2)
		var g *rapid.Generator[any]
		var desc string
		var sides []sideRange // offset ranges whose bands are required
		bandOf := func(v any) (side int, off uint64) { return 0, 0 }
		if !signed {
			span := uint64(1)<<uint(r.between(9, 63)) + r.next()>>uint(r.between(1, 63))
			if r.chance(1, 4) {
				span = math.MaxUint64
			}
			var lo uint64
			switch r.intn(3) {
			case 0:
				lo = 0
			case 1:
				lo = math.MaxUint64 - span
			default:
				if span < math.MaxUint64 {
					lo = r.next() % (math.MaxUint64 - span)
				}
			}
			hi := lo + span
			g, desc = rapid.Uint64Range(lo, hi).AsAny(), fmt.Sprintf("Uint64Range(%d, %d)", lo, hi)
			sides = []sideRange{{0, span}}
			bandOf = func(v any) (int, uint64) { return 0, v.(uint64) - lo }
		} else {
			span := uint64(1)<<uint(r.between(9, 62)) + r.next()>>uint(r.between(2, 63))
			var lo, hi int64
			switch r.intn(4) {
			case 0: // crossing zero
				lo = -int64(span / 2)
				hi = int64(span - span/2)
			case 1:
				hi = math.MaxInt64
				lo = hi - int64(span)
			case 2:
				lo = math.MinInt64
				hi = lo + int64(span)
			default:
				lo, hi = math.MinInt64, math.MaxInt64
			}
			g, desc = rapid.Int64Range(lo, hi).AsAny(), fmt.Sprintf("Int64Range(%d, %d)", lo, hi)
			switch {
			case lo < 0 && hi > 0:
				sides = []sideRange{{0, uint64(hi)}, {1, uint64(-(lo + 1)) + 1}}
				bandOf = func(v any) (int, uint64) {
					x := v.(int64)
					if x >= 0 {
						return 0, uint64(x)
					}
					return 1, uint64(-(x + 1)) + 1
				}
				sides[1].lo = 1
			case lo >= 0:
				sides = []sideRange{{0, uint64(hi - lo)}}
				bandOf = func(v any) (int, uint64) { return 0, uint64(v.(int64) - lo) }
			default: // hi <= 0: offsets from the bound nearer to zero
				sides = []sideRange{{0, uint64(hi - lo)}}
				bandOf = func(v any) (int, uint64) { return 0, uint64(hi - v.(int64)) }
			}
		}
		type bk struct{ side, l int }
		need := map[bk]bool{}
		for si, s := range sides {
			for _, l := range requiredBands(s.hi) {
				if l == 0 && s.lo > 0 {
					continue
				}
				need[bk{si, l}] = true
			}
		}
		total := len(need)
		draws := 0
		hit := map[bk]int{}
		drawMany(g, 300000, sc.Seed, func(v any) bool {
			draws++
			side, off := bandOf(v)
			k := bk{side, bits.Len64(off)}
			hit[k]++
			if need[k] {
				delete(need, k)
			}
			return len(need) > 0
		})
		res.inc("band_ranges")
		res.count("draws", int64(draws))
		res.count("bands_required", int64(total))
		res.max("max:draws_to_hit_all_bands", int64(draws))
		res.nontrivial(desc)
		if len(need) > 0 {
			var miss []string
			for k := range need {
				miss = append(miss, fmt.Sprintf("side %d bit-length %d", k.side, k.l))
			}
			res.violate(sc, "c18/band-unreachable", fmt.Sprintf("%s: offset bands %v never produced in %d draws", desc, miss, draws), map[string]any{"hits_per_band": fmt.Sprint(hit)})
		}
		if res.wantSample() && r.chance(1, 10) {
			res.sample(map[string]any{"family": "bands", "range": desc, "required_bands": total, "draws_until_all_hit": draws})
		}

	case "floatbands":
		// (sign, sign of exponent, bit length of |exponent|) bands of full-range floats
		is32 := r.chance(1, 2)
		var g *rapid.Generator[any]
		maxExpBand := 10
		if is32 {
			g, maxExpBand = rapid.Float32().AsAny(), 7
		} else {
			g = rapid.Float64().AsAny()
		}
		type fk struct {
			neg, eneg bool
			l         int
		}
		need := map[fk]bool{}
		for _, neg := range []bool{false, true} {
			for _, eneg := range []bool{false, true} {
				for l := 0; l <= maxExpBand; l++ {
					if eneg && l == 0 {
						continue // a negative exponent has magnitude >= 1
					}
					need[fk{neg, eneg, l}] = true
				}
			}
		}
		total := len(need)
		draws := 0
		drawMany(g, 300000, sc.Seed, func(v any) bool {
			draws++
			var f float64
			if is32 {
				f = float64(v.(float32))
			} else {
				f = v.(float64)
			}
			if f == 0 {
				return true
			}
			_, e := math.Frexp(math.Abs(f))
			e-- // exponent of the leading bit
			k := fk{math.Signbit(f), e < 0, bits.Len(uint(abs(e)))}
			delete(need, k)
			return len(need) > 0
		})
		res.inc("float_band_runs")
		res.count("draws", int64(draws))
		res.count("bands_required", int64(total))
		res.nontrivial(fmt.Sprintf("float32=%v/%x", is32, sc.Seed))
		if len(need) > 0 {
			res.violate(sc, "c18/float-band-unreachable", fmt.Sprintf("full-range float (32-bit: %v): %d of %d (sign, exponent sign, exponent magnitude) bands never produced in %d draws: %v", is32, len(need), total, draws, need), nil)
		}

	case "kinds":
		kinds := []struct {
			name   string
			bits   int
			signed bool
			full   *rapid.Generator[any]
			min    func(lo int64, ulo uint64) *rapid.Generator[any]
			max    func(hi int64, uhi uint64) *rapid.Generator[any]
		}{
			{"Int", 64, true, rapid.Int().AsAny(), func(l int64, _ uint64) *rapid.Generator[any] { return rapid.IntMin(int(l)).AsAny() }, func(h int64, _ uint64) *rapid.Generator[any] { return rapid.IntMax(int(h)).AsAny() }},
			{"Int8", 8, true, rapid.Int8().AsAny(), func(l int64, _ uint64) *rapid.Generator[any] { return rapid.Int8Min(int8(l)).AsAny() }, func(h int64, _ uint64) *rapid.Generator[any] { return rapid.Int8Max(int8(h)).AsAny() }},
			{"Int16", 16, true, rapid.Int16().AsAny(), func(l int64, _ uint64) *rapid.Generator[any] { return rapid.Int16Min(int16(l)).AsAny() }, func(h int64, _ uint64) *rapid.Generator[any] { return rapid.Int16Max(int16(h)).AsAny() }},
			{"Int32", 32, true, rapid.Int32().AsAny(), func(l int64, _ uint64) *rapid.Generator[any] { return rapid.Int32Min(int32(l)).AsAny() }, func(h int64, _ uint64) *rapid.Generator[any] { return rapid.Int32Max(int32(h)).AsAny() }},
			{"Int64", 64, true, rapid.Int64().AsAny(), func(l int64, _ uint64) *rapid.Generator[any] { return rapid.Int64Min(l).AsAny() }, func(h int64, _ uint64) *rapid.Generator[any] { return rapid.Int64Max(h).AsAny() }},
			{"Uint", 64, false, rapid.Uint().AsAny(), func(_ int64, l uint64) *rapid.Generator[any] { return rapid.UintMin(uint(l)).AsAny() }, func(_ int64, h uint64) *rapid.Generator[any] { return rapid.UintMax(uint(h)).AsAny() }},
			{"Uint8", 8, false, rapid.Uint8().AsAny(), func(_ int64, l uint64) *rapid.Generator[any] { return rapid.Uint8Min(uint8(l)).AsAny() }, func(_ int64, h uint64) *rapid.Generator[any] { return rapid.Uint8Max(uint8(h)).AsAny() }},
			{"Uint16", 16, false, rapid.Uint16().AsAny(), func(_ int64, l uint64) *rapid.Generator[any] { return rapid.Uint16Min(uint16(l)).AsAny() }, func(_ int64, h uint64) *rapid.Generator[any] { return rapid.Uint16Max(uint16(h)).AsAny() }},
			{"Uint32", 32, false, rapid.Uint32().AsAny(), func(_ int64, l uint64) *rapid.Generator[any] { return rapid.Uint32Min(uint32(l)).AsAny() }, func(_ int64, h uint64) *rapid.Generator[any] { return rapid.Uint32Max(uint32(h)).AsAny() }},
			{"Uint64", 64, false, rapid.Uint64().AsAny(), func(_ int64, l uint64) *rapid.Generator[any] { return rapid.Uint64Min(l).AsAny() }, func(_ int64, h uint64) *rapid.Generator[any] { return rapid.Uint64Max(h).AsAny() }},
			{"Byte", 8, false, rapid.Byte().AsAny(), func(_ int64, l uint64) *rapid.Generator[any] { return rapid.ByteMin(byte(l)).AsAny() }, func(_ int64, h uint64) *rapid.Generator[any] { return rapid.ByteMax(byte(h)).AsAny() }},
			{"Uintptr", 64, false, rapid.Uintptr().AsAny(), func(_ int64, l uint64) *rapid.Generator[any] { return rapid.UintptrMin(uintptr(l)).AsAny() }, func(_ int64, h uint64) *rapid.Generator[any] { return rapid.UintptrMax(uintptr(h)).AsAny() }},
		}
		k := kinds[sc.K%len(kinds)]
		// the kind's extremes as (signed, unsigned) pairs
		var tmin, tmax int64
		var umax uint64
		if k.signed {
			tmax = int64(1)<<(k.bits-1) - 1
			tmin = -tmax - 1
		} else {
			umax = math.MaxUint64
			if k.bits < 64 {
				umax = uint64(1)<<k.bits - 1
			}
		}
		g := k.full
		lo, hi, ulo, uhi := tmin, tmax, uint64(0), umax
		desc := k.name + "()"
		switch sc.N {
		case 1: // Min form with a bound in the upper half of the kind
			if k.signed {
				lo = tmax/2 + int64(r.next()%uint64(tmax/4+1))
			} else {
				ulo = umax/2 + r.next()%(umax/4+1)
			}
			g, desc = k.min(lo, ulo), fmt.Sprintf("%sMin(%d%d)", k.name, lo, ulo)
		case 2: // Max form with a bound in the lower half
			if k.signed {
				hi = tmin/2 - int64(r.next()%uint64(tmax/4+1))
			} else {
				uhi = umax/2 - r.next()%(umax/4+1)
			}
			g, desc = k.max(hi, uhi), fmt.Sprintf("%sMax(%d%d)", k.name, hi, uhi)
		}
		needed := map[string]bool{}
		var topSeen bool
		inTop := func(v any) bool { return false }
		if k.signed {
			needed[fmt.Sprint(lo)], needed[fmt.Sprint(hi)] = true, true
			if lo <= 0 && hi >= 0 {
				needed["0"] = true
			}
			// top band: the upper half of the magnitudes on the larger side (besides the extreme itself)
			inTop = func(v any) bool {
				x, _ := intView(v)
				return (x > hi/2+lo/2 && x < hi && hi > 0 && sc.N != 2) || (x < lo/2+hi/2 && x > lo && sc.N == 2)
			}
		} else {
			needed[fmt.Sprint(ulo)], needed[fmt.Sprint(uhi)] = true, true
			inTop = func(v any) bool {
				x := reflect.ValueOf(v).Uint()
				return x > ulo/2+uhi/2 && x < uhi
			}
		}
		total := len(needed)
		draws := 0
		drawMany(g, 100000, sc.Seed, func(v any) bool {
			draws++
			delete(needed, fmt.Sprint(v))
			if inTop(v) {
				topSeen = true
			}
			return len(needed) > 0 || !topSeen
		})
		res.inc("kind_forms")
		res.count("draws", int64(draws))
		res.count("edges_required", int64(total))
		res.nontrivial(desc)
		if len(needed) > 0 {
			res.violate(sc, "c18/kind-edge/"+k.name, fmt.Sprintf("%s: boundary values %v were never produced in %d draws", desc, keys(needed), draws), nil)
		}
		if !topSeen {
			res.violate(sc, "c18/kind-top/"+k.name, fmt.Sprintf("%s: no value from the upper half of its range (other than the extreme) in %d draws", desc, draws), nil)
		}

	case "floatulp":
		// Float64Range/Float32Range(a, a + k ulp), k in 1..20: all k+1 representable values must be produced
		k := r.between(1, 20)
		want := map[string]bool{}
		var g *rapid.Generator[any]
		var desc string
		if r.chance(1, 2) {
			a := f64Bound(r)
			if math.IsInf(a, 0) || a != a {
				a = 1
			}
			if r.chance(1, 2) {
				a = math.Ldexp(1+float64(r.next()>>12)/(1<<52), r.between(-30, 60)) * float64(1-2*r.intn(2))
			}
			b := a
			want[canon(a)] = true
			for i := 0; i < k; i++ {
				b = math.Nextafter(b, math.Inf(1))
				want[canon(b)] = true
			}
			if math.IsInf(b, 0) {
				return
			}
			g, desc = rapid.Float64Range(a, b).AsAny(), fmt.Sprintf("Float64Range(%#x, +%d ulp)", math.Float64bits(a), k)
		} else {
			a := f32Bound(r)
			if math.IsInf(float64(a), 0) || a != a {
				a = 128
			}
			if r.chance(1, 2) {
				a = float32(math.Ldexp(1+float64(r.next()>>41)/(1<<23), r.between(-20, 40))) * float32(1-2*r.intn(2))
			}
			b := a
			want[canon(a)] = true
			for i := 0; i < k; i++ {
				b = math.Nextafter32(b, float32(math.Inf(1)))
				want[canon(b)] = true
			}
			if math.IsInf(float64(b), 0) {
				return
			}
			g, desc = rapid.Float32Range(a, b).AsAny(), fmt.Sprintf("Float32Range(%#x, +%d ulp)", math.Float32bits(a), k)
		}
		// -0 and +0 are the same value of the contract
		delete(want, "f64:8000000000000000")
		delete(want, "f32:80000000")
		total := len(want)
		draws := 0
		drawMany(g, 100000, sc.Seed, func(v any) bool {
			draws++
			delete(want, canon(v))
			return len(want) > 0
		})
		res.inc("float_ulp_ranges")
		res.count("draws", int64(draws))
		res.max("max:draws_to_cover_float_ulp_range", int64(draws))
		res.nontrivial(desc)
		if len(want) > 0 {
			res.violate(sc, "c18/float-unreachable", fmt.Sprintf("%s: %d of its %d representable values were never produced in %d draws (e.g. %s)", desc, len(want), total, draws, keys(want)[0]), nil)
		}

	case "edges":
		gx, lo, hi, zero := c18EdgeRange(r)
		needed := map[string]bool{lo: true, hi: true}
		if zero != "" {
			needed[zero] = true
		}
		total := len(needed)
		draws := 0
		drawMany(gx.Gen, 5000, sc.Seed, func(v any) bool {
			draws++
			c := canon(v)
			if c == "f64:8000000000000000" {
				c = "f64:0000000000000000" // -0 counts as zero
			}
			if c == "f32:80000000" {
				c = "f32:00000000"
			}
			delete(needed, c)
			return len(needed) > 0
		})
		res.inc("edge_ranges")
		res.count("draws", int64(draws))
		res.count("edges_required", int64(total))
		res.max("max:draws_to_hit_edges", int64(draws))
		res.nontrivial(gx.Desc)
		if len(needed) > 0 {
			res.violate(sc, "c18/edge-missed", fmt.Sprintf("%s: boundary values %v not produced within %d draws", gx.Desc, keys(needed), draws), nil)
		}
		if res.wantSample() && r.chance(1, 40) {
			res.sample(map[string]any{"family": "edges", "range": gx.Desc, "edges": total, "draws_until_all_hit": draws})
		}

	case "fresh":
		// two Checks without -rapid.seed: different case sequences; cases within a run differ from each other
		seqs := make([][]string, 2)
		for k := 0; k < 2; k++ {
			setFlags(map[string]string{"rapid.checks": "50", "rapid.nofailfile": "true"})
			tb := newTB("C18fresh")
			k := k
			runCheck(tb, func(t *rapid.T) {
				s := ""
				for i := 0; i < 4; i++ {
					s += fmt.Sprintf("%x,", rapid.Uint64().Draw(t, "u"))
				}
				seqs[k] = append(seqs[k], s)
			})
		}
		res.inc("fresh_pairs")
		res.nontrivial(fmt.Sprintf("fresh/%x", sc.Seed))
		// every test case of a run is identified by an unbiased, high-entropy view of its bitstream: no two may be equal
		dup := ""
		noDup := func(cases []string, what string) {
			seen := map[string]int{}
			for i, c := range cases {
				if j, ok := seen[c]; ok && dup == "" {
					dup = fmt.Sprintf("%s: test cases #%d and #%d of %d are identical", what, j+1, i+1, len(cases))
				}
				seen[c] = i
			}
			res.count("cases_compared_within_a_run", int64(len(cases)))
		}
		// freshness must not depend on what lies around: with an ignorable (stale) fail file for the test, too
		{
			name := fmt.Sprintf("C18stale_%x", sc.Seed&0xffff)
			kind := pick(r, []string{"garbage", "other-version", "passes"})
			switch kind {
			case "garbage":
				writeFailFile(name, "20260101000000-1", "!!", 0, nil, "junk")
			case "other-version":
				writeFailFile(name, "20260101000000-1", "v0.0.1", 5, []uint64{1, 2, 3}, "old")
			default:
				writeFailFile(name, "20260101000000-1", rapidVersion(), 5, []uint64{1, 2, 3, 4, 5, 6, 7, 8}, "passes now")
			}
			var st [2][]string
			for k := 0; k < 2; k++ {
				setFlags(map[string]string{"rapid.checks": "20", "rapid.nofailfile": "true"})
				tb := newTB(name)
				k := k
				runCheck(tb, func(t *rapid.T) {
					if rapid.VerifStreamOf(t).Kind != "random" {
						rapid.Uint64().Draw(t, "u") // the stale file's replay is not part of the random sequence
						return
					}
					st[k] = append(st[k], fmt.Sprint(permGen.Draw(t, "p")))
				})
			}
			os.RemoveAll("testdata")
			noDup(st[0], "run with a stale fail file")
			noDup(st[1], "run with a stale fail file")
			res.inc("fresh_pairs_with_stale_fail_file")
			if fmt.Sprint(st[0]) == fmt.Sprint(st[1]) {
				res.violate(sc, "c18/not-fresh-stale-file", "with an ignorable fail file ("+kind+") present, two Check calls without -rapid.seed generated the same sequence of test cases", map[string]any{"first_cases": clipList(st[0], 2)})
			}
		}
		// the test binary seeds the global math/rand source itself (rand.Seed(k) in TestMain or at the top of a test, so
		// that ITS random choices repeat): rapid's sequences are fresh all the same
		{
			var st [2][]string
			for k := 0; k < 2; k++ {
				mrand.Seed(42)
				setFlags(map[string]string{"rapid.checks": "20", "rapid.nofailfile": "true"})
				tb := newTB("C18mrand")
				k := k
				runCheck(tb, func(t *rapid.T) { st[k] = append(st[k], fmt.Sprint(permGen.Draw(t, "p"))) })
			}
			noDup(st[0], "run after rand.Seed(42)")
			res.inc("fresh_pairs_after_math_rand_seed")
			if fmt.Sprint(st[0]) == fmt.Sprint(st[1]) {
				res.violate(sc, "c18/not-fresh-math-rand", "after rand.Seed(42) (the test's own use of math/rand) two Check calls without -rapid.seed generated the same sequence of test cases", map[string]any{"first_cases": clipList(st[0], 2)})
			}
		}
		// one stored MakeCheck function invoked several times (table-driven sub-tests): every invocation is a fresh run
		{
			setFlags(map[string]string{"rapid.checks": "20", "rapid.nofailfile": "true"})
			var cur *[]string
			f := rapid.MakeCheck(func(rt *rapid.T) {
				*cur = append(*cur, fmt.Sprint(permGen.Draw(rt, "p")))
			})
			var runs [3][]string
			for k := range runs {
				cur = &runs[k]
				t.Run("mk", f)
			}
			for k := range runs {
				noDup(runs[k], "MakeCheck run")
			}
			res.inc("stored_makecheck_triples")
			if fmt.Sprint(runs[0]) == fmt.Sprint(runs[1]) || fmt.Sprint(runs[1]) == fmt.Sprint(runs[2]) || fmt.Sprint(runs[0]) == fmt.Sprint(runs[2]) {
				res.violate(sc, "c18/makecheck-not-fresh", "two invocations of one stored MakeCheck function (no -rapid.seed) generated the same sequence of test cases", map[string]any{"first_cases": clipList(runs[0], 2)})
			}
		}
		if dup != "" {
			res.violate(sc, "c18/case-repeated", "the same test case was generated twice within one run (fingerprint: a permutation of 24 elements): "+dup, nil)
		}
		if fmt.Sprint(seqs[0]) == fmt.Sprint(seqs[1]) {
			res.violate(sc, "c18/not-fresh", "two Check calls without -rapid.seed generated the same sequence of test cases", map[string]any{"first_cases": clipList(seqs[0], 3)})
		}
		for k := 0; k < 2; k++ {
			d := map[string]bool{}
			for _, s := range seqs[k] {
				d[s] = true
			}
			if len(d)*2 < len(seqs[k]) {
				res.violate(sc, "c18/cases-repeat", fmt.Sprintf("only %d distinct test cases among %d in one run", len(d), len(seqs[k])), map[string]any{"cases": clipList(seqs[k], 6)})
			}
			// fingerprint for the cross-process comparison done by the runner
			res.digest(fmt.Sprintf("freshseq/%d/%x/%d", *fShard, sc.Seed, k), fmt.Sprintf("%x", hashStr(fmt.Sprint(seqs[k]))))
		}

	case "fresh-concurrent":
		// Check calls racing for their base seed must still all be different
		setFlags(map[string]string{"rapid.checks": "1", "rapid.nofailfile": "true"})
		const G, per = 16, 3000
		first := make([][]uint64, G)
		var wg sync.WaitGroup
		start := make(chan struct{})
		for g := 0; g < G; g++ {
			wg.Add(1)
			go func(g int) {
				defer wg.Done()
				<-start
				for i := 0; i < per; i++ {
					tb := newTB("C18c")
					var fp uint64
					done := make(chan struct{})
					go func() {
						defer close(done)
						rapid.Check(tb, func(t *rapid.T) {
							// a high-entropy, unbiased view of the case's bitstream (integer generators are biased
							// towards small values and would collide by themselves): a permutation of 24 elements
							fp = hashStr(fmt.Sprint(permGen.Draw(t, "p")))
						})
					}()
					<-done
					first[g] = append(first[g], fp)
				}
			}(g)
		}
		close(start)
		wg.Wait()
		seen := map[uint64]int{}
		dups := 0
		for g := range first {
			for _, fp := range first[g] {
				seen[fp]++
				if seen[fp] == 2 {
					dups++
				}
			}
		}
		res.inc("concurrent_fresh_rounds")
		res.count("concurrent_checks", int64(G*per))
		res.nontrivial(fmt.Sprintf("conc/%x", sc.Seed))
		if dups > 0 {
			res.violate(sc, "c18/concurrent-not-fresh", fmt.Sprintf("%d of %d concurrently started Check calls (no -rapid.seed) ran the same first test case as another one", dups, G*per), nil)
		}
	}
}

var permGen = rapid.Permutation([]int{0, 1, 2, 3, 4, 5, 6, 7, 8, 9, 10, 11, 12, 13, 14, 15, 16, 17, 18, 19, 20, 21, 22, 23})

func abs(x int) int {
	if x < 0 {
		return -x
	}
	return x
}

func keys(m map[string]bool) []string {
	var out []string
	for k := range m {
		out = append(out, k)
	}
	return out
}

// c18EdgeRange builds an integer or float range and the canonical forms of its min, max and zero (if in range).
func c18EdgeRange(r *rng) (gx *GX, lo, hi, zero string) {
	switch r.intn(6) {
	case 0, 1: // signed
		a, b := sBound[int64](r, math.MinInt64, math.MaxInt64), sBound[int64](r, math.MinInt64, math.MaxInt64)
		if a > b {
			a, b = b, a
		}
		if r.chance(1, 5) && a < math.MaxInt64 {
			b = a + 1
		}
		z := ""
		if a <= 0 && b >= 0 {
			z = canon(int64(0))
		}
		return &GX{Desc: fmt.Sprintf("Int64Range(%d, %d)", a, b), Gen: rapid.Int64Range(a, b).AsAny()}, canon(a), canon(b), z
	case 2: // int32
		a, b := sBound[int32](r, math.MinInt32, math.MaxInt32), sBound[int32](r, math.MinInt32, math.MaxInt32)
		if a > b {
			a, b = b, a
		}
		z := ""
		if a <= 0 && b >= 0 {
			z = canon(int32(0))
		}
		return &GX{Desc: fmt.Sprintf("Int32Range(%d, %d)", a, b), Gen: rapid.Int32Range(a, b).AsAny()}, canon(a), canon(b), z
	case 3: // unsigned
		a, b := uBound[uint64](r, math.MaxUint64), uBound[uint64](r, math.MaxUint64)
		if a > b {
			a, b = b, a
		}
		z := ""
		if a == 0 {
			z = canon(uint64(0))
		}
		return &GX{Desc: fmt.Sprintf("Uint64Range(%d, %d)", a, b), Gen: rapid.Uint64Range(a, b).AsAny()}, canon(a), canon(b), z
	case 4: // float64
		a, b := f64Bound(r), f64Bound(r)
		if a > b {
			a, b = b, a
		}
		if r.chance(1, 5) {
			b = math.Nextafter(a, math.Inf(1))
		}
		if a == 0 {
			a = 0 // +0
		}
		if b == 0 {
			b = 0
		}
		z := ""
		if a <= 0 && b >= 0 {
			z = canon(float64(0))
		}
		return &GX{Desc: fmt.Sprintf("Float64Range(%v, %v)", a, b), Gen: rapid.Float64Range(a, b).AsAny()}, canon(a), canon(b), z
	default: // float32
		a, b := f32Bound(r), f32Bound(r)
		if a > b {
			a, b = b, a
		}
		if a == 0 {
			a = 0
		}
		if b == 0 {
			b = 0
		}
		z := ""
		if a <= 0 && b >= 0 {
			z = canon(float32(0))
		}
		return &GX{Desc: fmt.Sprintf("Float32Range(%v, %v)", a, b), Gen: rapid.Float32Range(a, b).AsAny()}, canon(a), canon(b), z
	}
}
