package harness

// C02 — no falsification is lost.  The matrix failure kind x callback context
// x position of the falsifying case (x "then Skip" where meaningful) is
// enumerated; the oracle is: some executed invocation recorded a failure
// intent  =>  the TB passed to Check is failed.

import (
	"fmt"
	"os"
	"strings"
	"sync"
	"testing"

	"pgregory.net/rapid"
)

func init() {
	monitors["C02"] = &monitor{scenarios: c02Scenarios, run: c02Run}
}

var c02Contexts = []string{"body", "action", "invariant", "custom-inner", "custom-outer", "cleanup-body", "cleanup-action", "cleanup-custom", "goroutine", "cleanup-nested", "cleanup-nested-custom"}
var c02Positions = []string{"first", "middle", "last", "after-skips", "late-step"}
var c02Variants = []string{"plain", "then-skip", "then-invalid-draw", "skip-in-cleanup", "skip-in-later-cleanup", "skip-in-earlier-cleanup", "deferred-skip", "body-skip", "then-more-draws"}

func c02Scenarios(cfg runCfg) []Scenario {
	var out []Scenario
	i := 0
	reps := cfg.n(2, 100)
	for rep := 0; rep < reps; rep++ {
		for k := 0; k < nFailKinds; k++ {
			for _, ctx := range c02Contexts {
				if ctx == "goroutine" && !kindNonFatal(k) {
					continue
				}
				for _, pos := range c02Positions {
					if pos == "late-step" && ctx != "action" && ctx != "invariant" && ctx != "cleanup-action" {
						continue
					}
					for _, va := range c02Variants {
						switch va {
						case "then-skip", "then-invalid-draw", "then-more-draws":
							// only where code runs after the signal: non-fatal kinds in body / action / custom function
							if !kindNonFatal(k) || (ctx != "body" && ctx != "action" && ctx != "custom-inner" && ctx != "custom-outer") {
								continue
							}
						case "skip-in-cleanup":
							if ctx != "body" && ctx != "action" && ctx != "custom-inner" {
								continue
							}
						case "skip-in-later-cleanup", "skip-in-earlier-cleanup":
							// the failure is signalled in one cleanup (by a T method or by a panic), a cleanup that runs
							// later / has run just before it skips
							if ctx != "cleanup-body" && ctx != "cleanup-action" && ctx != "cleanup-custom" {
								continue
							}
						case "body-skip":
							// the callback that registered the falsifying cleanup ends by skipping: the cleanup still runs and still counts
							if (ctx != "cleanup-body" && ctx != "cleanup-action" && ctx != "cleanup-custom") || pos == "late-step" {
								continue
							}
						case "deferred-skip":
							// Fatal/Fatalf/FailNow (or a non-fatal call) followed by a Skip from a deferred function of the same callback
							if kindPanic(k) || (ctx != "body" && ctx != "action" && ctx != "custom-inner") {
								continue
							}
						}
						if cfg.mine(i) {
							out = append(out, Scenario{Family: "cell", Seed: mix(cfg.seed, 2, uint64(i)), K: k, S: ctx + "|" + pos + "|" + va})
						}
						i++
					}
				}
			}
		}
	}
	// a property that is falsified only in its n-th execution, whatever it is given (it depends on something outside
	// its draws): that execution falsified it, so the test fails (rapid may well call it flaky - it must not pass)
	for j := 0; j < cfg.n(64, 20); j++ {
		if cfg.mine(i) {
			out = append(out, Scenario{Family: "nth-execution", Seed: mix(cfg.seed, 2, 8, uint64(j)), K: j % nFailKinds, N: []int{1, 1, 2, 3, 7, 10}[j%6]})
		}
		i++
	}
	// skip-only programs never fail (unless the budget is exhausted)
	for j := 0; j < cfg.n(60, 50); j++ {
		if cfg.mine(i) {
			out = append(out, Scenario{Family: "skip-only", Seed: mix(cfg.seed, 2, 9, uint64(j))})
		}
		i++
	}
	return out
}

type c02Spec struct {
	kind    int
	ctx     string
	variant string
	fire    map[uint64]bool // first-draw values of the falsifying case
	skip    map[uint64]bool // first-draw values of cases that must skip
	late    int             // fire only at the late-th action attempt (0 = any)
}

func c02Body(sp *c02Spec) func(x *X) {
	return func(x *X) {
		u := x.draw(rapid.Uint64().AsAny(), "u").(uint64)
		u = mix(u, x.draw(rapid.Uint64().AsAny(), "u2").(uint64))
		if sp.skip[u] {
			x.skip("steered skip")
		}
		fire := sp.fire[u]
		signal := func(t *rapid.T, where string) {
			saved := x.where
			x.where = where
			raiseOn(x, t, sp.kind, 1)
			x.where = saved
			switch sp.variant {
			case "then-skip":
				x.ev("skip after signal")
				t.Skip("after the failure signal")
			case "then-invalid-draw":
				x.ev("invalid draw after signal")
				impossibleGen.Draw(t, "never")
			case "then-more-draws":
				// the callback goes on drawing after a non-fatal failure: plain values and values of other Custom
				// generators, through the T it signalled on and - legitimately, it is the same test case - through the
				// enclosing T it has captured
				x.ev("more draws after signal")
				inner := rapid.Custom(func(it *rapid.T) int { return rapid.IntRange(0, 9).Draw(it, "n") + 1 })
				rapid.Bool().Draw(t, "more")
				inner.Draw(t, "nested")
				inner.Draw(x.t, "nested-through-the-enclosing-T")
				rapid.SliceOfN(inner, 0, 3).Draw(x.t, "nested-slice")
			}
		}
		if sp.variant == "skip-in-cleanup" && fire {
			x.t.Cleanup(func() {
				x.ev("cleanup skips")
				x.inv.SkipWhy = "skip inside a cleanup"
				x.t.Skip("skip inside a cleanup")
			})
		}
		// registered before the signalling cleanup, hence run after it
		laterSkip := func(t *rapid.T) {
			if sp.variant == "skip-in-later-cleanup" {
				t.Cleanup(func() {
					if fire {
						x.ev("later cleanup skips")
						t.Skip("skip in a later cleanup")
					}
				})
			}
		}
		// registered after the signalling cleanup, hence run before it
		earlierSkip := func(t *rapid.T) {
			if sp.variant == "skip-in-earlier-cleanup" {
				t.Cleanup(func() {
					if fire {
						x.ev("earlier cleanup skips")
						t.Skip("skip in an earlier cleanup")
					}
				})
			}
		}
		deferredSkip := func(t *rapid.T) {
			if sp.variant == "deferred-skip" && fire {
				x.ev("deferred skip")
				t.Skip("deferred skip")
			}
		}
		switch sp.ctx {
		case "body":
			defer deferredSkip(x.t)
			x.draw(rapid.IntRange(0, 100).AsAny(), "v")
			if fire {
				signal(x.t, "body")
			}
		case "cleanup-body":
			laterSkip(x.t)
			x.t.Cleanup(func() {
				if fire {
					signal(x.t, "body/cleanup")
				}
			})
			earlierSkip(x.t)
			x.draw(rapid.IntRange(0, 100).AsAny(), "v")
			if fire && sp.variant == "body-skip" {
				x.skip("the body skips, its cleanup will fail")
			}
		case "cleanup-nested":
			// a cleanup function that registers another one during the cleanup phase: that one signals
			x.t.Cleanup(func() {
				x.t.Cleanup(func() {
					if fire {
						signal(x.t, "body/cleanup")
					}
				})
			})
			x.draw(rapid.IntRange(0, 100).AsAny(), "v")
		case "cleanup-nested-custom":
			g := rapid.Custom(func(t *rapid.T) int {
				v := rapid.IntRange(0, 100).Draw(t, "cv")
				t.Cleanup(func() {
					t.Cleanup(func() {
						if fire {
							signal(t, "custom/cleanup")
						}
					})
				})
				return v
			})
			g.Draw(x.t, "c")
		case "goroutine":
			x.draw(rapid.IntRange(0, 100).AsAny(), "v")
			if fire {
				var wg sync.WaitGroup
				wg.Add(1)
				go func() {
					defer wg.Done()
					signal(x.t, "body/goroutine")
				}()
				wg.Wait()
			}
		case "action", "invariant", "cleanup-action":
			attempts := 0
			registered := false
			acts := map[string]func(*rapid.T){
				"step": func(t *rapid.T) {
					attempts++
					rapid.IntRange(0, 9).Draw(t, "s")
					if sp.ctx == "cleanup-action" && !registered {
						registered = true
						laterSkip(t)
						t.Cleanup(func() {
							if fire && attempts >= sp.late {
								signal(t, "action/cleanup")
							}
						})
						earlierSkip(t)
						if fire && sp.variant == "body-skip" {
							x.ev("action skips")
							t.Skip("the action skips, the cleanup it registered will fail")
						}
					}
					if sp.ctx == "action" && fire && attempts >= sp.late {
						defer deferredSkip(t)
						signal(t, "action")
					}
				},
				"other": func(t *rapid.T) {
					attempts++
					if sp.ctx == "action" && fire && attempts >= sp.late {
						signal(t, "action")
					}
					if rapid.Bool().Draw(t, "b") {
						t.Skip("not applicable")
					}
				},
			}
			if sp.ctx == "invariant" {
				acts[""] = func(t *rapid.T) {
					if fire && attempts >= sp.late {
						signal(t, "invariant")
					}
				}
			}
			x.t.Repeat(acts)
			x.ev("attempts=%d", attempts)
		case "custom-inner", "custom-outer", "cleanup-custom":
			g := rapid.Custom(func(t *rapid.T) int {
				v := rapid.IntRange(0, 100).Draw(t, "cv")
				switch sp.ctx {
				case "custom-inner":
					if fire {
						if sp.variant == "skip-in-cleanup" {
							t.Cleanup(func() {
								x.ev("custom cleanup skips")
								t.Skip("skip inside a cleanup of the generator function")
							})
						}
						defer deferredSkip(t)
						signal(t, "custom")
					}
				case "custom-outer":
					if fire {
						signal(x.t, "custom/outer-T")
					}
				case "cleanup-custom":
					laterSkip(t)
					t.Cleanup(func() {
						if fire {
							signal(t, "custom/cleanup")
						}
					})
					earlierSkip(t)
					if fire && sp.variant == "body-skip" {
						x.ev("generator function skips")
						t.Skip("the generator function skips, its cleanup will fail")
					}
				}
				return v
			})
			g.Draw(x.t, "c")
		}
	}
}

func c02Run(t *testing.T, sc Scenario, res *Result) {
	defer os.RemoveAll("testdata")
	r := newRng(sc.Seed, 0xc02)
	if sc.Family == "nth-execution" {
		if sc.K == fkLibAssert {
			sc.K = fkPanicStr
		}
		execs := 0
		cr := runBody(func(x *X) {
			x.draw(rapid.Uint8().AsAny(), "v")
			execs++
			if execs == sc.N {
				x.fail(sc.K, 0)
			}
		}, runOpts{name: "C02nth", flags: map[string]string{"rapid.seed": fmt.Sprint(sc.Seed%1000003 + 1), "rapid.checks": "10", "rapid.nofailfile": "true", "rapid.shrinktime": "0s"}, noExit: true})
		res.inc("checks_run")
		res.inc("nth_execution_runs")
		res.nontrivial(fmt.Sprintf("nth-execution/%d/%d", sc.K, sc.N))
		if !cr.tb.Failed() {
			res.violate(sc, "c02/nth-execution", fmt.Sprintf("execution #%d of the property signalled %s (and no other did); Check did not fail the test: %s", sc.N, failKindNames[sc.K], clip(cr.rp.Kind+" "+cr.rp.Raw, 200)), map[string]any{"tb": cr.tb.brief()})
		}
		return
	}
	if sc.Family == "skip-only" {
		rate := r.between(0, 100)
		checks := pick(r, []int{1, 10, 100})
		cr := runBody(func(x *X) {
			u := x.draw(rapid.Uint64().AsAny(), "u").(uint64)
			if int(mix(u, sc.Seed)%100) < rate {
				if r.chance(1, 2) {
					x.skip("rate")
				} else {
					x.draw(impossibleGen, "never")
				}
			}
		}, runOpts{name: "C02skip", flags: map[string]string{"rapid.checks": fmt.Sprint(checks), "rapid.nofailfile": "true"}, noExit: true})
		res.inc("checks_run")
		res.inc("skip_only_runs")
		if cr.tb.Failed() && cr.rp.Kind != "only" {
			res.violate(sc, "c02/skip-fails", "a property that only skips failed the test: "+clip(cr.rp.Raw, 300), map[string]any{"skip_rate": rate, "checks": checks, "tb": cr.tb.brief()})
		}
		res.nontrivial(fmt.Sprintf("skip-only/%d/%d", rate, checks))
		return
	}
	parts := strings.Split(sc.S, "|")
	sp := &c02Spec{kind: sc.K, ctx: parts[0], variant: parts[2], fire: map[uint64]bool{}, skip: map[uint64]bool{}}
	pos := parts[1]
	checks := pick(r, []int{10, 30, 100})
	fl := map[string]string{"rapid.seed": fmt.Sprint(sc.Seed%1000003 + 1), "rapid.checks": fmt.Sprint(checks), "rapid.nofailfile": "true",
		"rapid.shrinktime": pick(r, []string{"0s", "20ms"}), "rapid.steps": "10"}
	// dry run with a never-failing twin: first draw of every case
	twin := &c02Spec{kind: sc.K, ctx: sp.ctx, variant: "plain", fire: map[uint64]bool{}, skip: map[uint64]bool{}}
	dry := runBody(c02Body(twin), runOpts{name: "C02", flags: fl, noExit: true})
	if dry.rp.Kind != "ok" || len(dry.log.Invs) < checks {
		res.inconclusive(fmt.Sprintf("dry run did not pass (%s): %s", dry.rp.Kind, clip(dry.rp.Raw, 200)))
		return
	}
	first := func(i int) uint64 {
		var u, u2 uint64
		fmt.Sscanf(strings.TrimSuffix(dry.log.Invs[i].Draws[0].Canon, "u"), "%d", &u)
		fmt.Sscanf(strings.TrimSuffix(dry.log.Invs[i].Draws[1].Canon, "u"), "%d", &u2)
		return mix(u, u2)
	}
	target := 0
	switch pos {
	case "middle":
		target = checks / 2
	case "last":
		target = checks - 1
	case "after-skips":
		// the 9 cases before the target skip; skipped cases do not count towards -rapid.checks, the seed schedule goes on
		target = 12
		if target >= checks {
			target = checks - 1
		}
		for i := target - 9; i < target; i++ {
			if i >= 0 {
				sp.skip[first(i)] = true
			}
		}
	case "late-step":
		target = checks / 3
		sp.late = 6
		fl["rapid.steps"] = "40"
	}
	if sp.ctx == "action" || sp.ctx == "invariant" || sp.ctx == "cleanup-action" {
		// the falsifier needs enough action attempts in the target case: take the next case that has them
		need := sp.late
		if need < 1 {
			need = 1
		}
		found := -1
		for k := 0; k < checks; k++ {
			i := target + k
			if pos == "last" {
				i = target - k // the last case that qualifies
			}
			if i < 0 || i >= len(dry.log.Invs) || i >= checks {
				break
			}
			if sp.skip[first(i)] {
				continue
			}
			n := 0
			for _, e := range dry.log.Invs[i].Trace {
				fmt.Sscanf(e, "attempts=%d", &n)
			}
			if n >= need+1 {
				found = i
				break
			}
		}
		if found < 0 {
			res.inconclusive("no case with enough action attempts at the wanted position")
			return
		}
		target = found
	}
	sp.fire[first(target)] = true
	if sp.skip[first(target)] {
		res.inconclusive("steering collision: target case equals a skipped case")
		return
	}
	cr := runBody(c02Body(sp), runOpts{name: "C02", flags: fl})
	res.inc("checks_run")
	signalled := 0
	var sig *Inv
	for _, inv := range cr.log.Invs {
		if inv.signalled() {
			signalled++
			if sig == nil {
				sig = inv
			}
		}
	}
	cell := fmt.Sprintf("%s|%s", failKindNames[sc.K], sc.S)
	if signalled == 0 {
		res.inconclusive("the falsifier never fired in cell " + cell)
		return
	}
	res.inc("cells_fired")
	res.inc("ctx:" + sp.ctx)
	res.inc("kind:" + failKindNames[sc.K])
	res.inc("pos:" + pos)
	res.inc("variant:" + sp.variant)
	res.nontrivial(cell)
	detail := map[string]any{"cell": cell, "flags": fl, "target_case": target, "invocations_that_signalled": signalled, "first_signalling": sig.brief(), "tb": cr.tb.brief()}
	if cr.tb.escaped != nil {
		res.violate(sc, "c02/escape/"+cellKey(sc), fmt.Sprintf("panic escaped Check: %v", cr.tb.escaped), detail)
		return
	}
	if !cr.tb.Failed() {
		res.violate(sc, "c02/lost/"+cellKey(sc), fmt.Sprintf("%d executed test cases signalled a failure (%s in %s, %s) but Check did not fail the test: %s",
			signalled, failKindNames[sc.K], sp.ctx, sp.variant, clip(cr.rp.Kind+" "+cr.rp.Raw, 160)), detail)
		return
	}
	if cr.rp.Kind == "flaky" {
		res.violate(sc, "c02/flaky/"+cellKey(sc), "deterministic falsification reported as flaky: "+clip(cr.rp.Raw, 300), detail)
	}
	if res.wantSample() && r.chance(1, 30) {
		res.sample(map[string]any{"cell": cell, "target_case": target, "verdict": clip(cr.rp.Raw, 160)})
	}
}

// cellKey is the known-findings key of a matrix cell (kind class, context, variant – not the position or seed).
func cellKey(sc Scenario) string {
	parts := strings.Split(sc.S, "|")
	return failKindNames[sc.K] + "/" + parts[0] + "/" + parts[2]
}
