package harness

// C09 — Check does the promised amount of work and never passes vacuously.
// C11 — test cases are isolated.

import (
	"context"
	"flag"
	"fmt"
	"os"
	"os/exec"
	"path/filepath"
	"strings"
	"sync"
	"testing"
	"time"

	"pgregory.net/rapid"
)

func init() {
	monitors["C09"] = &monitor{scenarios: c09Scenarios, run: c09Run}
	monitors["C11"] = &monitor{scenarios: c11Scenarios, run: c11Run}
}

var c09Ns = []int{1, 2, 3, 5, 17, 100, 1000}

// skip patterns: never, always, every j-th invocation, data dependent with a rate
var c09Sigmas = []string{"never", "always", "every2", "every3", "every11", "rate5", "rate30", "rate50", "rate80", "rate91", "rate95", "first9of10", "cleanup-always", "cleanup-rate50", "invariant-rate30", "invariant-rate80", "early-every3", "early-first9of10"}

func c09Scenarios(cfg runCfg) []Scenario {
	var out []Scenario
	i := 0
	reps := cfg.n(4, 100)
	for rep := 0; rep < reps; rep++ {
		for _, n := range c09Ns {
			for _, sg := range c09Sigmas {
				if cfg.mine(i) {
					out = append(out, Scenario{Family: "passing", Seed: mix(cfg.seed, 9, uint64(i)), N: n, S: sg})
				}
				i++
			}
		}
	}
	for j := 0; j < cfg.n(200, 100); j++ {
		if cfg.mine(i) {
			out = append(out, Scenario{Family: "failfiles", Seed: mix(cfg.seed, 9, 1, uint64(j)), N: pick(newRng(uint64(j)), []int{1, 3, 17, 100, 0, 2}), K: []int{1, 2, 3, 4, 5, 1, 2, 3, 4, 5, 24, 45, 70, 130}[j%14]}) // (also dozens of files: every one is replayed)
		}
		i++
	}
	for j := 0; j < cfg.n(240, 100); j++ {
		if cfg.mine(i) {
			out = append(out, Scenario{Family: "failing", Seed: mix(cfg.seed, 9, 2, uint64(j)), N: pick(newRng(uint64(j)), []int{1, 5, 100, 1000})})
		}
		i++
	}
	for j := 0; j < cfg.n(80, 50); j++ {
		if cfg.mine(i) {
			out = append(out, Scenario{Family: "realT", Seed: mix(cfg.seed, 9, 3, uint64(j)), K: j % 4})
		}
		i++
	}
	for j := 0; j < cfg.n(48, 50); j++ {
		if cfg.mine(i) {
			out = append(out, Scenario{Family: "flaky-failfile", Seed: mix(cfg.seed, 9, 4, uint64(j)), N: pick(newRng(uint64(j)), []int{5, 20, 100, 0})})
		}
		i++
	}
	// a test deadline that is reached while every case was skipped: must not pass vacuously (child process with -test.timeout)
	if cfg.shard < 4 {
		out = append(out, Scenario{Family: "deadline", Seed: mix(cfg.seed, 9, 5, uint64(cfg.shard)), K: cfg.shard % 2})
	}
	if cfg.shard == 6 || cfg.shard == 9 {
		out = append(out, Scenario{Family: "deadline", Seed: mix(cfg.seed, 9, 6, uint64(cfg.shard)), K: 2})
	}
	if cfg.shard == 12 || cfg.shard == 15 {
		out = append(out, Scenario{Family: "deadline", Seed: mix(cfg.seed, 9, 7, uint64(cfg.shard)), K: 3})
	}
	// a short test deadline (go test -timeout 8s) and a fail file that still falsifies: it is replayed first all the same
	if cfg.shard == 5 || cfg.shard == 10 {
		out = append(out, Scenario{Family: "deadline", Seed: mix(cfg.seed, 9, 8, uint64(cfg.shard)), K: 4})
	}
	return out
}

var rapidVer struct {
	once sync.Once
	v    string
}

// rapidVersion learns the version string rapid writes into fail files from a real save.
func rapidVersion() string {
	rapidVer.once.Do(func() {
		dir, err := os.MkdirTemp(".", "ver")
		if err != nil {
			panic(err)
		}
		defer os.RemoveAll(dir)
		wd, _ := os.Getwd()
		defer os.Chdir(wd)
		os.Chdir(dir)
		setFlags(map[string]string{"rapid.checks": "1"})
		tb := newTB("VersionProbe")
		runCheck(tb, func(t *rapid.T) { rapid.Bool().Draw(t, "b"); t.Fatalf("probe") })
		rp := parseReport(tb)
		v, _, _, _, err := readFailFile(rp.FailFile)
		if err != nil {
			panic(fmt.Sprintf("cannot learn rapid version: %v (%v)", err, tb.brief()))
		}
		rapidVer.v = v
	})
	return rapidVer.v
}

func failDir(name string) string {
	// the documented layout: testdata/rapid/<sanitised name>/<sanitised name>-*.fail
	return filepath.Join("testdata", "rapid", sanitize(name))
}

func writeFailFile(name, suffix string, version string, seed uint64, words []uint64, comment string) string {
	d := failDir(name)
	if err := os.MkdirAll(d, 0o775); err != nil {
		panic(err)
	}
	var b strings.Builder
	if comment != "" {
		b.WriteString("# " + comment + "\n")
	}
	fmt.Fprintf(&b, "%s#%d", version, seed)
	for _, w := range words {
		fmt.Fprintf(&b, "\n0x%x", w)
	}
	p := filepath.Join(d, sanitize(name)+"-"+suffix+".fail")
	if err := os.WriteFile(p, []byte(b.String()), 0o644); err != nil {
		panic(err)
	}
	return p
}

func c09Run(t *testing.T, sc Scenario, res *Result) {
	defer os.RemoveAll("testdata")
	r := newRng(sc.Seed, 0xc09)
	switch sc.Family {
	case "passing", "failfiles":
		sigma := sc.S
		if sc.Family == "failfiles" {
			sigma = pick(r, []string{"never", "rate30", "every3"})
		}
		calls := 0
		nd := r.between(1, 3)
		salt := r.next()
		body := func(x *X) {
			calls++
			var h uint64 = salt
			if strings.HasPrefix(sigma, "early-") {
				// skipped before anything is drawn: the case is as invalid as any other skipped one, and the next one is tried
				if (sigma == "early-every3" && calls%3 == 0) || (sigma == "early-first9of10" && calls%10 != 0) {
					x.skip(sigma)
				}
			}
			for i := 0; i < nd; i++ {
				v := x.draw(rapid.Uint64().AsAny(), fmt.Sprintf("u%d", i))
				h = mix(h, v.(uint64))
			}
			skip := false
			switch {
			case sigma == "never":
			case sigma == "always":
				skip = true
			case strings.HasPrefix(sigma, "every"):
				var j int
				fmt.Sscanf(sigma, "every%d", &j)
				skip = calls%j == 0
			case strings.HasPrefix(sigma, "rate"):
				var pct int
				fmt.Sscanf(sigma, "rate%d", &pct)
				skip = h%100 < uint64(pct)
			case sigma == "first9of10":
				skip = calls%10 != 0
			case sigma == "cleanup-always", sigma == "cleanup-rate50":
				// the case is made invalid by a Skip from a cleanup function, after its body returned
				if sigma == "cleanup-always" || h%2 == 0 {
					me := x
					x.t.Cleanup(func() {
						me.inv.SkipWhy = "skip from a cleanup"
						me.t.Skip("skip from a cleanup")
					})
				}
			}
			if skip {
				x.skip(sigma)
			}
			if strings.HasPrefix(sigma, "invariant-rate") {
				// the case is made invalid by a Skip from the invariant of a state machine, after some action has drawn
				// a value: that invalidates the test case (it is not an action that turned out to be non-applicable)
				var pct int
				fmt.Sscanf(sigma, "invariant-rate%d", &pct)
				st := h
				me := x
				x.t.Repeat(map[string]func(*rapid.T){
					"a": func(t *rapid.T) { st = mix(st, uint64(rapid.Uint8().Draw(t, "a"))) },
					"": func(t *rapid.T) {
						if st != h && st%100 < uint64(pct)/4 {
							me.skip(sigma)
						}
					},
				})
			}
		}
		name := fmt.Sprintf("C09_%x", sc.Seed&0xffffff)
		k := 0
		if sc.Family == "failfiles" {
			// K usable-looking fail files whose test case passes (enough words) or is invalid (overrun)
			k = sc.K
			for i := 0; i < k; i++ {
				var words []uint64
				if i%2 == 0 || sigma != "never" {
					words = []uint64{r.next(), r.next(), r.next(), r.next()}
				}
				p := writeFailFile(name, fmt.Sprintf("20260101000000-%d", i), rapidVersion(), 1, words, "planted")
				if i%3 == 2 {
					// the file is a symbolic link into a store (testdata populated by a build system)
					store := filepath.Join("testdata", "store")
					os.MkdirAll(store, 0o775)
					if abs, err := filepath.Abs(filepath.Join(store, fmt.Sprintf("f%d", i))); err == nil && os.Rename(p, abs) == nil {
						if os.Symlink(abs, p) != nil {
							os.Rename(abs, p)
						} else {
							res.inc("planted_fail_files_that_are_symlinks")
						}
					}
				}
			}
		}
		flagN := sc.N
		// (with fail files present also when that leaves no random test case at all: the files are replayed all the same)
		short := (sc.Family == "passing" && mix(sc.Seed, 0x5407)%4 == 0 && sc.N >= 5) || (sc.Family == "failfiles" && mix(sc.Seed, 0x5407)%4 == 0)
		if short {
			// -short: a fifth of the checks - and a fifth of the budget of skipped cases
			if err := flag.Set("test.short", "true"); err == nil {
				defer flag.Set("test.short", "false")
				sc.N = sc.N / 5
				res.inc("short_mode_runs")
			} else {
				short = false
			}
		}
		fl := map[string]string{"rapid.checks": fmt.Sprint(flagN)}
		if r.chance(1, 2) {
			fl["rapid.seed"] = fmt.Sprint(r.next()%100000 + 1)
		}
		calls = 0
		ro := runOpts{name: name, flags: fl, noExit: true}
		if sc.Family == "passing" && mix(sc.Seed, 0xc7b)%5 == 0 {
			// the TB offers a Context that is cancelled already (a Check made from a cleanup function of the enclosing
			// test, say): that is no reason to run fewer test cases
			cctx, cancel := context.WithCancel(context.Background())
			cancel()
			ro.as = func(tb *recTB) rapid.TB { return ctxTB{tb, cctx} }
			res.inc("runs_on_a_TB_with_a_cancelled_context")
		}
		cr := runBody(body, ro)
		res.inc("checks_run")
		res.inc("family:" + sc.Family)
		completed, skipped, buffers, firstRandom := 0, 0, 0, -1
		for i, inv := range cr.log.Invs {
			if inv.Kind == "buffer" {
				buffers++
				if firstRandom >= 0 {
					res.violate(sc, "c09/order", "a fail file replay happened after a random test case", map[string]any{"tb": cr.tb.brief()})
				}
				continue
			}
			if firstRandom < 0 {
				firstRandom = i
			}
			if inv.Returned && inv.SkipWhy == "" {
				completed++
			} else {
				skipped++
			}
		}
		res.count("invocations", int64(len(cr.log.Invs)))
		detail := map[string]any{"N": sc.N, "sigma": sigma, "completed": completed, "skipped": skipped, "buffer_replays": buffers, "planted_fail_files": k, "tb": cr.tb.brief()}
		if buffers != k {
			res.violate(sc, "c09/failfile-count", fmt.Sprintf("%d fail files present but %d buffer replays ran", k, buffers), detail)
		}
		switch {
		case cr.tb.escaped != nil:
			res.violate(sc, "c09/escape", fmt.Sprintf("panic escaped Check: %v", cr.tb.escaped), detail)
		case cr.rp.Kind == "ok":
			res.inc("verdict_pass")
			if completed != sc.N || cr.rp.Passed != sc.N {
				res.violate(sc, "c09/pass-count", fmt.Sprintf("passed with %d completed random test cases (message says %d), -rapid.checks=%d", completed, cr.rp.Passed, sc.N), detail)
			}
			if cr.tb.Failed() {
				res.violate(sc, "c09/pass-failed", "TB is failed although Check reported OK", detail)
			}
			if completed > 0 || buffers > 0 {
				res.nontrivial(fmt.Sprintf("pass/%d/%s/%d", sc.N, sigma, k))
			}
		case cr.rp.Kind == "only":
			res.inc("verdict_only_generated")
			if completed >= sc.N || skipped != 10*sc.N {
				res.violate(sc, "c09/budget", fmt.Sprintf("'only generated' after %d completed and %d skipped cases; the budget is 10*%d skipped ones", completed, skipped, sc.N), detail)
			}
			if cr.rp.Passed != completed || cr.rp.N != completed+skipped {
				res.violate(sc, "c09/only-text", fmt.Sprintf("message says %d valid of %d total; observed %d completed, %d skipped", cr.rp.Passed, cr.rp.N, completed, skipped), detail)
			}
			if !cr.tb.failNow {
				res.violate(sc, "c09/failnow", "Check failed the test but did not stop it (no FailNow)", detail)
			}
			res.nontrivial(fmt.Sprintf("only/%d/%s/%d", sc.N, sigma, k))
		default:
			res.violate(sc, "c09/verdict", fmt.Sprintf("a never-failing property ended with verdict %q: %s", cr.rp.Kind, clip(cr.rp.Raw, 300)), detail)
		}
		if res.wantSample() && r.chance(1, 8) {
			res.sample(map[string]any{"family": sc.Family, "checks": sc.N, "skip_pattern": sigma, "planted_fail_files": k, "completed": completed, "skipped": skipped, "verdict": cr.rp.Kind})
		}

	case "failing":
		o := progOpts{sites: 1, nonFatal: true, rejecting: r.chance(1, 3), failDen: r.between(1, 40)}
		p := genProg(sc.Seed, o)
		cr := runProgram(p, runOpts{name: "C09f", flags: map[string]string{"rapid.checks": fmt.Sprint(sc.N), "rapid.nofailfile": "true", "rapid.shrinktime": pick(r, []string{"0s", "1s"})}})
		res.inc("checks_run")
		res.inc("family:failing")
		if cr.rp.Kind != "failed" && cr.rp.Kind != "panic" {
			res.inc("failing_family_did_not_fail")
			return
		}
		res.nontrivial(fmt.Sprintf("failing/%x", sc.Seed))
		var falsified *Inv
		seenRepro := false
		for _, inv := range cr.log.Invs {
			detail := map[string]any{"program": p.Desc, "tb": cr.tb.brief(), "invocation": inv.brief()}
			switch inv.phase() {
			case "generate":
				if falsified != nil {
					res.violate(sc, "c09/fresh-after-failure", "a fresh random test case was generated after the first falsified one", detail)
				}
				if inv.signalled() {
					falsified = inv
				}
			case "reproduce":
				if seenRepro {
					res.violate(sc, "c09/two-repro", "more than one recording random stream after the failure", detail)
				}
				seenRepro = true
				if falsified == nil || inv.drawsKey() != falsified.drawsKey() {
					res.violate(sc, "c09/repro-draws", "the recording run after the failure does not draw the falsified case's values", detail)
				}
			}
		}
		if !cr.tb.failNow {
			res.violate(sc, "c09/failnow", "a failed Check did not call FailNow on the TB", map[string]any{"program": p.Desc, "tb": cr.tb.brief()})
		} else {
			ev := cr.tb.snapshot()
			if ev[len(ev)-1].Kind != "failnow" {
				res.violate(sc, "c09/failnow-last", "FailNow was not the last thing Check did on the TB", map[string]any{"tb": cr.tb.brief()})
			}
		}

	case "flaky-failfile":
		// a fail file whose replay falsifies the property once (state dependent): the test case WAS falsified, so
		// Check must fail and must not go on generating fresh random cases
		name := fmt.Sprintf("C09fl_%x", sc.Seed&0xffffff)
		writeFailFile(name, "20260101000000-1", rapidVersion(), 1, []uint64{r.next() >> 12, r.next(), r.next(), r.next()}, "planted") // bias word below 0.5: a plain (never "overflow") Uint64 draw, valid for every value word
		calls := 0
		cr := runBody(func(x *X) {
			calls++
			x.draw(rapid.Uint64().AsAny(), "u")
			if calls == 1 {
				x.fail(fkFatalf, 0)
			}
		}, runOpts{name: name, flags: map[string]string{"rapid.checks": fmt.Sprint(sc.N), "rapid.nofailfile": "true"}, noExit: true})
		res.inc("checks_run")
		res.inc("family:flaky-failfile")
		res.nontrivial(fmt.Sprintf("flaky-failfile/%d", sc.N))
		nrandom := 0
		for _, inv := range cr.log.Invs {
			if inv.Kind == "random" {
				nrandom++
			}
		}
		detail := map[string]any{"checks": sc.N, "invocations": len(cr.log.Invs), "random_cases": nrandom, "tb": cr.tb.brief()}
		if !cr.tb.Failed() {
			res.violate(sc, "c09/flaky-failfile-passed", "a fail-file replay falsified the property, yet Check passed: "+clip(cr.rp.Kind+" "+cr.rp.Raw, 200), detail)
		}
		if nrandom > 0 {
			res.violate(sc, "c09/flaky-failfile-continued", fmt.Sprintf("%d fresh random test cases were generated after a fail-file replay had falsified the property", nrandom), detail)
		}

	case "deadline":
		// child: real *testing.T with a deadline (-test.timeout); every case sleeps and skips (K=0) or every other case is valid (K=1)
		self, _ := os.Executable()
		cmd := exec.Command(self, "-test.run", "^TestDeadlineChild$", "-test.timeout", "4s", "-test.v")
		if sc.K == 2 {
			// a test deadline that is nearer than the (default, 30 s) minimisation time limit, and a fast property that never fails
			cmd = exec.Command(self, "-test.run", "^TestDeadlineChild$", "-test.timeout", "25s", "-test.v", "-rapid.checks", "50")
		}
		if sc.K == 3 {
			// the falsifying test case is slow and ends close to the test deadline: it is still a falsification
			cmd = exec.Command(self, "-test.run", "^TestDeadlineChild$", "-test.timeout", "6s", "-test.v", "-rapid.checks", "50", "-rapid.nofailfile")
		}
		if sc.K == 4 {
			cmd = exec.Command(self, "-test.run", "^TestDeadlineChild$", "-test.timeout", "8s", "-test.v", "-rapid.checks", "50", "-rapid.nofailfile")
		}
		cmd.Env = append(os.Environ(), fmt.Sprintf("C09_DEADLINE_MODE=%d", sc.K))
		began := time.Now()
		out, _ := cmd.CombinedOutput()
		text := string(out)
		if sc.K == 4 {
			res.inc("checks_run")
			res.inc("family:deadline")
			res.nontrivial("deadline/4")
			switch {
			case strings.Contains(text, "test timed out"):
				res.inconclusive("deadline child (mode 4) hit the go test timeout")
			case !strings.Contains(text, "DEADLINE-CHILD-RAN"):
				res.inconclusive("deadline child did not run: " + clip(text, 200))
			case !strings.Contains(text, "failed after 0 tests: the saved test case still fails") || !strings.Contains(text, "DEADLINE-CHILD-RANDOM-CASES 0"):
				res.violate(sc, "c09/deadline-failfile", "with a test deadline 8 s away a fail file that still falsifies the property was not replayed first (or random test cases ran): "+clip(text, 500), nil)
			default:
				res.inc("deadline_short_failfile_replayed")
			}
			return
		}
		if sc.K == 3 {
			res.inc("checks_run")
			res.inc("family:deadline")
			res.nontrivial("deadline/3")
			switch {
			case strings.Contains(text, "test timed out"):
				res.inconclusive("deadline child (mode 3) hit the go test timeout")
			case !strings.Contains(text, "DEADLINE-CHILD-RAN"):
				res.inconclusive("deadline child did not run: " + clip(text, 200))
			case !strings.Contains(text, "--- FAIL: TestDeadlineChild") || !strings.Contains(text, "slow case falsified"):
				res.violate(sc, "c09/deadline-slow-failure", "a test case that took long and falsified the property close to the test deadline was not reported: "+clip(text, 500), nil)
			default:
				res.inc("deadline_slow_failure_reported")
			}
			return
		}
		if sc.K == 2 {
			res.inc("checks_run")
			res.inc("family:deadline")
			res.nontrivial("deadline/2")
			switch {
			case time.Since(began) > 12*time.Second || strings.Contains(text, "test timed out"):
				res.inconclusive("deadline child (mode 2) came close to its own deadline")
			case !strings.Contains(text, "DEADLINE-CHILD-RAN"):
				res.inconclusive("deadline child did not run: " + clip(text, 200))
			case !strings.Contains(text, "OK, passed 50 tests") || !strings.Contains(text, "DEADLINE-CHILD-CALLS 50"):
				res.violate(sc, "c09/deadline-near", "with a test deadline 25 s away a never-failing property did not run on exactly -rapid.checks=50 test cases: "+clip(text, 400), nil)
			default:
				res.inc("deadline_near_full_run")
			}
			return
		}
		res.inc("checks_run")
		res.inc("family:deadline")
		res.nontrivial(fmt.Sprintf("deadline/%d", sc.K))
		switch {
		case strings.Contains(text, "test timed out") || strings.Contains(text, "panic: test timed out"):
			res.inconclusive("deadline child hit the go test timeout before rapid's early exit")
		case !strings.Contains(text, "DEADLINE-CHILD-RAN"):
			res.inconclusive("deadline child did not run: " + clip(text, 200))
		case sc.K == 0:
			res.inc("deadline_all_skipped")
			if strings.Contains(text, "OK, passed 0 tests") || strings.Contains(text, "--- PASS: TestDeadlineChild") {
				res.violate(sc, "c09/vacuous-early-exit", "Check passed although it ran out of time with 0 valid test cases: "+clip(text, 300), nil)
			} else if !strings.Contains(text, "only generated 0 valid tests") {
				res.inconclusive("unexpected child output: " + clip(text, 300))
			}
		default:
			res.inc("deadline_some_valid")
			if !strings.Contains(text, "--- PASS: TestDeadlineChild") {
				res.inconclusive("early exit with valid cases did not pass: " + clip(text, 300))
			}
		}

	case "realT":
		// a failed Check stops the enclosing *testing.T
		setFlags(map[string]string{"rapid.nofailfile": "true", "rapid.checks": "20", "rapid.shrinktime": "0s"})
		reached := false
		var st *testing.T
		variant := []string{"fatal", "errorf", "only-generated", "makecheck"}[sc.K]
		if mix(sc.Seed, 7)%3 == 0 {
			// a never-failing property under a real *testing.T without a test deadline (-test.timeout=0): exactly N cases
			n := 0
			var st *testing.T
			after := false
			t.Run("count", func(s *testing.T) {
				st = s
				f := func(rt *rapid.T) { n++; rapid.Uint8().Draw(rt, "v") }
				if sc.K%2 == 0 {
					rapid.Check(s, f)
				} else {
					rapid.MakeCheck(f)(s)
				}
				after = true
			})
			res.inc("checks_run")
			res.inc("family:realT")
			res.inc("realT_count_runs")
			res.nontrivial("realT/count")
			if n != 20 || st.Failed() || !after {
				res.violate(sc, "c09/realT-count", fmt.Sprintf("under a real *testing.T (no deadline) a never-failing property ran on %d test cases, -rapid.checks=20 (failed=%v)", n, st.Failed()), nil)
			}
			return
		}
		prop := func(rt *rapid.T) {
			v := rapid.Uint8().Draw(rt, "v")
			switch variant {
			case "fatal", "makecheck":
				if v >= 0 {
					rt.Fatalf("boom")
				}
			case "errorf":
				rt.Errorf("soft")
			case "only-generated":
				rt.Skip("never valid")
			}
		}
		t.Run("stop", func(s *testing.T) {
			st = s
			if variant == "makecheck" {
				rapid.MakeCheck(prop)(s)
			} else {
				rapid.Check(s, prop)
			}
			reached = true
		})
		res.inc("checks_run")
		res.inc("family:realT")
		res.nontrivial("realT/" + variant)
		if !st.Failed() {
			res.violate(sc, "c09/realT-notfailed", "enclosing *testing.T is not failed after a failed Check ("+variant+")", nil)
		}
		if reached {
			res.violate(sc, "c09/realT-continued", "the statement after a failed Check was executed: the enclosing test was not stopped ("+variant+")", nil)
		}
	}
}

// ---------------------------------------------------------------------------
// C11

var c11Behaviours = []string{"pass", "skip", "errorf", "errorf+skip", "cleanup-errorf", "go-errorf", "cleanup-state", "fatalf", "panic", "skip+cleanup-errorf", "errorf+invalid-draw",
	"cleanup-skip", "cleanup-more-errorf", "cleanup-more",
	// failures without a message followed by a skip / raised by a cleanup; a non-fatal failure in a case that is skipped twice over
	"error-empty+skip", "cleanup-errorf-empty", "errorf+skip+cleanup-skip", "cleanup-errorf+cleanup-skip", "cleanup-skip+cleanup-errorf",
	// an optional hook that happens to be nil is registered between two real cleanups
	"cleanup-nil"}

func c11Scenarios(cfg runCfg) []Scenario {
	var out []Scenario
	i := 0
	// all orders of four named behaviours over three consecutive cases
	four := []string{"errorf", "skip", "cleanup-errorf", "pass"}
	for a := 0; a < 4; a++ {
		for b := 0; b < 4; b++ {
			for c := 0; c < 4; c++ {
				for rep := 0; rep < cfg.n(2, 50); rep++ {
					if cfg.mine(i) {
						out = append(out, Scenario{Family: "forced", Seed: mix(cfg.seed, 11, uint64(i)), S: four[a] + "," + four[b] + "," + four[c]})
					}
					i++
				}
			}
		}
	}
	// forced pairs over the full behaviour list (leak from case 0 into case 1)
	for a := range c11Behaviours {
		for b := range c11Behaviours {
			if cfg.mine(i) {
				out = append(out, Scenario{Family: "forced", Seed: mix(cfg.seed, 11, 7, uint64(i)), S: c11Behaviours[a] + "," + c11Behaviours[b]})
			}
			i++
		}
	}
	for j := 0; j < cfg.n(1600, 100); j++ {
		if cfg.mine(i) {
			out = append(out, Scenario{Family: "random", Seed: mix(cfg.seed, 11, 9, uint64(j))})
		}
		i++
	}
	for j := 0; j < cfg.n(96, 20); j++ {
		if cfg.mine(i) {
			out = append(out, Scenario{Family: "shared-skip-site", Seed: mix(cfg.seed, 11, 13, uint64(j))})
		}
		i++
	}
	for j := 0; j < cfg.n(48, 20); j++ {
		if cfg.mine(i) {
			out = append(out, Scenario{Family: "machine-cases", Seed: mix(cfg.seed, 11, 14, uint64(j))})
		}
		i++
	}
	for j := 0; j < cfg.n(16, 10); j++ {
		if cfg.mine(i) {
			out = append(out, Scenario{Family: "deep-abandon", Seed: mix(cfg.seed, 11, 12, uint64(j))})
		}
		i++
	}
	for j := 0; j < cfg.n(32, 10); j++ {
		if cfg.mine(i) {
			out = append(out, Scenario{Family: "tb-failed-by-others", Seed: mix(cfg.seed, 11, 10, uint64(j)), K: 1 + j%7})
		}
		i++
	}
	return out
}

// follow-up cleanups (registered by a cleanup): ran / registered, reset per scenario
var c11FollowUps [2]int

var impossibleGen = rapid.Int().Filter(func(int) bool { return false }).AsAny()

// c11Body builds the property: the behaviour of a test case is a function of its first draw.
func c11Body(forced map[uint64]string, randomRate int, salt uint64, leaks *int, staleCtx *int) func(x *X) {
	followUps, followUpsRegistered := &c11FollowUps[0], &c11FollowUps[1]
	return func(x *X) {
		u := x.draw(rapid.Uint64().AsAny(), "").(uint64)
		x.draw(rapid.IntRange(0, 9).AsAny(), "")
		b := "pass"
		if fb, ok := forced[u]; ok {
			b = fb
		} else if randomRate > 0 {
			h := mix(u, salt)
			if h%uint64(randomRate) < 6 {
				b = c11Behaviours[(h>>20)%uint64(len(c11Behaviours))]
			} else if h%3 == 0 {
				b = "cleanup-state"
			}
		}
		x.ev("behaviour %s", b)
		// every case looks at its context first: it must be live (nothing carried over)
		if c := x.t.Context(); c.Err() != nil {
			*staleCtx++
			x.ev("ctx already cancelled at start")
		}
		if x.t.Failed() {
			x.ev("Failed() true at start")
			*staleCtx += 1000
		}
		me := x
		cleanupErr := func() {
			x.t.Cleanup(func() {
				if !me.current() {
					*leaks++
				}
				me.where = "body/cleanup"
				raiseOn(me, me.t, fkErrorf, 2)
			})
		}
		switch b {
		case "pass":
		case "skip":
			x.skip("forced")
		case "errorf":
			x.fail(fkErrorf, 0)
		case "errorf+skip":
			x.fail(fkErrorf, 0)
			x.skip("after errorf")
		case "cleanup-errorf":
			cleanupErr()
		case "skip+cleanup-errorf":
			cleanupErr()
			x.skip("with failing cleanup")
		case "go-errorf":
			x.exec([]Step{{Op: "go", N: 3, Kind: fkErrorf, Site: 1, Pred: Pred{Typ: "always"}}})
		case "cleanup-state":
			ctx := x.t.Context()
			x.t.Cleanup(func() {
				if !me.current() {
					*leaks++
				}
				if ctx.Err() == nil {
					me.ev("ctx not cancelled in cleanup")
				}
				// a context asked for during cleanup must not survive into the next case
				_ = me.t.Context()
			})
		case "cleanup-skip":
			// the only (last-running) cleanup skips: the case is merely invalid, the same T goes on to the next case
			x.t.Cleanup(func() {
				if !me.current() {
					*leaks++
				}
				me.ev("cleanup skips")
				me.inv.SkipWhy = "skip from a cleanup"
				me.t.Skip("skip from a cleanup")
			})
		case "cleanup-more-errorf", "cleanup-more":
			// a cleanup that registers another cleanup: it belongs to this case, too
			x.t.Cleanup(func() {
				if !me.current() {
					*leaks++
				}
				me.t.Cleanup(func() {
					if !me.current() {
						*leaks++
					}
					me.ev("follow-up cleanup ran")
					*followUps++
					if b == "cleanup-more-errorf" {
						me.where = "body/cleanup"
						raiseOn(me, me.t, fkErrorf, 2)
					}
				})
				*followUpsRegistered++
			})
		case "cleanup-nil":
			for i := 0; i < 2; i++ {
				x.t.Cleanup(func() {
					if !me.current() {
						*leaks++
					}
					me.ev("cleanup around a nil one ran")
					*followUps++
				})
				*followUpsRegistered++
				if i == 0 {
					x.t.Cleanup(nil)
				}
			}
		case "error-empty+skip":
			x.fail(fkErrorEmpty, 0)
			x.skip("after a failure without a message")
		case "cleanup-errorf-empty":
			x.t.Cleanup(func() {
				if !me.current() {
					*leaks++
				}
				me.where = "body/cleanup"
				raiseOn(me, me.t, fkErrorfEmpty, 2)
			})
		case "errorf+skip+cleanup-skip", "cleanup-errorf+cleanup-skip", "cleanup-skip+cleanup-errorf":
			skipper := func() {
				x.t.Cleanup(func() {
					if !me.current() {
						*leaks++
					}
					me.ev("cleanup skips")
					me.t.Skip("skip from a cleanup")
				})
			}
			switch b {
			case "errorf+skip+cleanup-skip":
				skipper()
				x.fail(fkErrorf, 0)
				x.skip("after errorf, and a cleanup will skip as well")
			case "cleanup-errorf+cleanup-skip":
				skipper() // runs after the failing one
				cleanupErr()
			default:
				cleanupErr()
				skipper() // runs before the failing one
			}
		case "fatalf":
			x.fail(fkFatalf, 3)
		case "panic":
			x.fail(fkPanicStr, 4)
		case "errorf+invalid-draw":
			x.fail(fkErrorf, 0)
			x.draw(impossibleGen, "never")
		}
		x.draw(rapid.Bool().AsAny(), "")
	}
}

func c11Run(t *testing.T, sc Scenario, res *Result) {
	defer os.RemoveAll("testdata")
	if sc.Family == "shared-skip-site" {
		// the usual shape "check something (non-fatal), then find the input not applicable (Skip)": the Skip statement
		// is ONE call site, reached by test cases that have signalled a failure and by ones that have not.  The test
		// case Check ends up presenting (after minimisation) must be one that signalled.
		r := newRng(sc.Seed, 0x5c1b)
		ta, tb2 := int64(r.between(1, 900)), int64(r.between(0, 900))
		kind := pick(r, []int{fkErrorf, fkError, fkFail, fkErrorEmpty})
		core := func(x *X) {
			a := x.draw(rapid.IntRange(0, 1000).AsAny(), "a").(int)
			b := x.draw(rapid.IntRange(0, 1000).AsAny(), "b").(int)
			if int64(a) > ta {
				x.fail(kind, 0)
			}
			if int64(b) > tb2 {
				x.skip("not applicable")
			}
		}
		body := core
		cr := runBody(body, runOpts{name: "C11skipsite", flags: map[string]string{"rapid.seed": fmt.Sprint(sc.Seed%1000003 + 1), "rapid.checks": "200", "rapid.nofailfile": "true",
			"rapid.shrinktime": pick(r, []string{"0s", "1s", "5s"})}})
		res.inc("checks_run")
		res.inc("family:shared-skip-site")
		res.nontrivial(fmt.Sprintf("shared-skip-site/%d/%d/%d", ta, tb2, kind))
		v := judgeReality(cr, true)
		if v.inconclusive != "" {
			res.inconclusive(v.inconclusive)
			return
		}
		for _, pr := range v.problems {
			res.violate(sc, "c11/shared-skip-site/"+firstWords(pr, 5), fmt.Sprintf("non-fatal failure when a > %d, Skip (one call site) when b > %d: %s", ta, tb2, pr), map[string]any{"tb": cr.tb.brief()})
		}
		if v.failedReported {
			res.inc("runs_with_failure")
		}
		return
	}
	if sc.Family == "machine-cases" {
		// a never-failing state machine (a bounded buffer: put is not applicable when full, get when empty, both
		// skip BEFORE drawing) is run for hundreds of test cases on the T that Check reuses; in every case at least
		// one action is applicable in every state, so no case may be reported - whatever the cases before it did
		r := newRng(sc.Seed, 0x3ac4)
		capacity := r.between(1, 3)
		extra := r.chance(1, 2)
		cr := runBody(func(x *X) {
			var buf []int
			acts := map[string]func(*rapid.T){
				"put": func(t *rapid.T) {
					if len(buf) >= capacity {
						t.Skip("full")
					}
					buf = append(buf, rapid.IntRange(0, 9).Draw(t, "v"))
				},
				"get": func(t *rapid.T) {
					if len(buf) == 0 {
						t.Skip("empty")
					}
					buf = buf[1:]
				},
				// looks at the head: not applicable to an empty buffer (skips before drawing), and gives up after
				// drawing in half of its attempts (that step is rejected, nothing was applied)
				"peek": func(t *rapid.T) {
					if len(buf) == 0 {
						t.Skip("empty")
					}
					if rapid.IntRange(0, 9).Draw(t, "interest") > 4 {
						t.Skip("not interesting")
					}
				},
				"": func(t *rapid.T) {
					if len(buf) > capacity {
						t.Fatalf("buffer holds %d of %d", len(buf), capacity)
					}
				},
			}
			if extra {
				acts["clear"] = func(t *rapid.T) {
					if len(buf) < capacity {
						t.Skip("only a full buffer is cleared")
					}
					buf = buf[:0]
				}
			}
			x.t.Repeat(acts)
		}, runOpts{name: "C11machine", flags: map[string]string{"rapid.seed": fmt.Sprint(sc.Seed%1000003 + 1), "rapid.checks": "300", "rapid.steps": pick(r, []string{"5", "30", "100"}), "rapid.nofailfile": "true"}, noExit: true})
		res.inc("checks_run")
		res.inc("family:machine-cases")
		res.nontrivial(fmt.Sprintf("machine-cases/%d/%v/%x", capacity, extra, sc.Seed&0xff))
		if cr.tb.Failed() || cr.rp.Kind != "ok" {
			res.violate(sc, "c11/machine-cases", fmt.Sprintf("a never-failing state machine (bounded buffer of %d, some action applicable in every state) was reported: %s", capacity, clip(cr.rp.Raw, 300)), map[string]any{"tb": cr.tb.brief()})
		}
		return
	}
	if sc.Family == "deep-abandon" {
		// hundreds of test cases are abandoned in the middle of a draw, deep inside nested generators (invalid data
		// unwinding through every frame); the cases in between, in which nothing fails, must not be reported
		r := newRng(sc.Seed, 0xdeeb)
		levels := r.between(8, 16)
		bad, desc := deepChain(r, impossibleGen, levels)
		good, _ := deepChain(r, rapid.IntRange(0, 9).AsAny(), levels)
		abandoned, passed := 0, 0
		checks := 600
		cr := runBody(func(x *X) {
			u := x.draw(rapid.Uint8().AsAny(), "u").(uint8)
			if u%2 == 0 {
				abandoned++
				x.draw(bad, "never")
			}
			x.draw(good, "v")
			passed++
		}, runOpts{name: "C11deep", flags: map[string]string{"rapid.seed": fmt.Sprint(sc.Seed%1000003 + 1), "rapid.checks": fmt.Sprint(checks), "rapid.nofailfile": "true"}, noExit: true})
		res.inc("checks_run")
		res.inc("family:deep-abandon")
		res.count("deep_abandoned_cases", int64(abandoned))
		res.nontrivial("deep-abandon/" + desc)
		if cr.tb.Failed() || cr.rp.Kind != "ok" {
			res.violate(sc, "c11/deep-abandon", fmt.Sprintf("a property that never signals a failure was reported after %d test cases had been abandoned %d generator levels deep (%d passed): %s", abandoned, levels, passed, clip(cr.rp.Raw, 300)), map[string]any{"generators": desc, "tb": cr.tb.brief()})
		}
		return
	}
	if sc.Family == "tb-failed-by-others" {
		// something else (a watchdog goroutine of the surrounding test, a helper using the outer T) marks the enclosing
		// test as failed while Check is running; the property itself never signals anything on its *rapid.T: no test
		// case may be reported as falsifying
		leaks, stale := 0, 0
		cr := runBody(c11Body(nil, 0, 0, &leaks, &stale), runOpts{name: "C11ext", flags: map[string]string{"rapid.seed": fmt.Sprint(sc.Seed%1000003 + 1), "rapid.checks": "12", "rapid.nofailfile": "true"},
			noExit: true, during: func(call int, tb *recTB) {
				if call == sc.K {
					tb.Errorf("watchdog of the surrounding test: something unrelated failed")
				}
			}})
		res.inc("checks_run")
		res.inc("family:tb-failed-by-others")
		res.nontrivial(fmt.Sprintf("tb-failed-by-others/%d", sc.K))
		for _, e := range cr.tb.errors() {
			if strings.HasPrefix(e, "[rapid]") {
				res.violate(sc, "c11/blamed-for-the-TB", "the enclosing test was failed by something else while Check ran; Check reported a test case of its own as falsifying: "+clip(e, 300), map[string]any{"tb": cr.tb.brief()})
				return
			}
		}
		for _, inv := range cr.log.Invs {
			if inv.phase() != "generate" {
				res.violate(sc, "c11/blamed-for-the-TB", "Check started reproducing/minimising although no test case signalled a failure (phase "+inv.phase()+")", map[string]any{"tb": cr.tb.brief()})
				return
			}
		}
		return
	}
	r := newRng(sc.Seed, 0xc11)
	seedFlag := fmt.Sprint(sc.Seed%1000003 + 1)
	verbose := r.chance(1, 2)
	fl := map[string]string{"rapid.seed": seedFlag, "rapid.nofailfile": "true", "rapid.shrinktime": pick(r, []string{"0s", "200ms"})}
	if verbose {
		fl["rapid.v"] = "true"
	}
	leaks, stale := 0, 0
	forced := map[uint64]string{}
	var want []string
	if sc.Family == "forced" {
		want = strings.Split(sc.S, ",")
		// dry run: the never-failing twin yields the first draw of every case
		dry := runBody(c11Body(nil, 0, 0, &leaks, &stale), runOpts{name: "C11", flags: flagsWith(fl, "rapid.checks", fmt.Sprint(len(want)+2), "rapid.v", "false"), noExit: true})
		if len(dry.log.Invs) < len(want) {
			res.inconclusive("dry run produced too few cases")
			return
		}
		for i, b := range want {
			d := dry.log.Invs[i].Draws[0]
			var u uint64
			fmt.Sscanf(strings.TrimSuffix(d.Canon, "u"), "%d", &u)
			forced[u] = b
		}
		fl["rapid.checks"] = "10"
	}
	rate := 0
	if sc.Family == "random" {
		rate = r.between(20, 200)
	}
	leaks, stale = 0, 0
	c11FollowUps = [2]int{}
	cr := runBody(c11Body(forced, rate, sc.Seed, &leaks, &stale), runOpts{name: "C11", flags: fl})
	res.inc("checks_run")
	res.inc("family:" + sc.Family)
	res.count("cases", int64(len(cr.log.Invs)))
	detail := map[string]any{"forced": sc.S, "flags": fl, "tb": cr.tb.brief()}
	var seq []string
	for _, inv := range cr.log.Invs {
		if inv.phase() != "generate" {
			break
		}
		for _, e := range inv.Trace {
			if strings.HasPrefix(e, "behaviour ") {
				seq = append(seq, strings.TrimPrefix(e, "behaviour "))
			}
		}
	}
	detail["behaviour_sequence"] = clipList(seq, 30)
	if sc.Family == "forced" {
		// the steering worked? (else inconclusive, never held)
		for i, b := range want {
			if i < len(seq) && seq[i] != b {
				res.inconclusive(fmt.Sprintf("steering failed: wanted %v got %v", want, seq))
				return
			}
			if i >= len(seq) {
				break
			}
		}
	}
	if leaks > 0 {
		res.violate(sc, "c11/cleanup-leak", fmt.Sprintf("%d cleanups ran while another test case was executing", leaks), detail)
	}
	if c11FollowUps[0] != c11FollowUps[1] {
		res.violate(sc, "c11/follow-up-cleanups", fmt.Sprintf("%d cleanups were registered by cleanup functions but %d ran by the end of the Check", c11FollowUps[1], c11FollowUps[0]), detail)
	}
	if stale > 0 {
		res.violate(sc, "c11/stale-state", "a test case started with a cancelled context or a set failure flag carried over from an earlier case", detail)
	}
	// F = first generated case that signalled; findBug must stop exactly there
	var F *Inv
	fi := -1
	for i, inv := range cr.log.Invs {
		if inv.phase() != "generate" {
			continue
		}
		if F != nil {
			res.violate(sc, "c11/continued", "findBug generated another test case after one that signalled a failure", detail)
			break
		}
		if inv.signalled() {
			F, fi = inv, i
		}
	}
	if F == nil {
		if cr.tb.Failed() && cr.rp.Kind != "only" {
			res.violate(sc, "c11/blamed-innocent", "Check failed although no generated test case signalled a failure: "+clip(cr.rp.Raw, 300), detail)
		}
		res.inc("runs_without_failure")
	} else {
		res.inc("runs_with_failure")
		res.nontrivial(strings.Join(seq, ","))
		detail["falsified"] = F.brief()
		if fi+1 >= len(cr.log.Invs) || cr.log.Invs[fi+1].phase() != "reproduce" {
			res.violate(sc, "c11/no-repro", "the falsified case is not followed by its reproduction run", detail)
		} else if cr.log.Invs[fi+1].drawsKey() != F.drawsKey() {
			detail["reproduced"] = cr.log.Invs[fi+1].brief()
			res.violate(sc, "c11/wrong-case", "Check reproduces a different test case than the one that signalled the failure", detail)
		}
		v := judgeReality(cr, true)
		if v.inconclusive != "" {
			res.inconclusive(v.inconclusive)
		}
		for _, pr := range v.problems {
			for k, d := range v.detail {
				detail[k] = d
			}
			res.violate(sc, "c11/"+firstWords(pr, 6), pr, detail)
		}
	}
	if verbose {
		// draw bookkeeping: with -rapid.v every generated case logs its draws, unlabelled ones as #0,#1,... per case
		var got, exp []string
		for _, e := range cr.tb.snapshot() {
			if e.Kind == "error" {
				break
			}
			if e.Kind == "log" && strings.HasPrefix(e.Text, "[rapid] draw ") {
				got = append(got, e.Text)
			}
		}
		for _, inv := range cr.log.Invs {
			if inv.phase() == "generate" || inv.phase() == "reproduce" {
				exp = append(exp, expectedDrawLines(inv)...)
			}
		}
		res.inc("verbose_runs")
		if strings.Join(got, "\n") != strings.Join(exp, "\n") {
			d := 0
			for d < len(got) && d < len(exp) && got[d] == exp[d] {
				d++
			}
			detail["first_difference_at_line"] = d
			if d < len(got) {
				detail["logged"] = got[d]
			}
			if d < len(exp) {
				detail["expected"] = exp[d]
			}
			res.violate(sc, "c11/draw-labels", "verbose draw log does not match the draws of each case (labels must restart at #0 in every test case)", detail)
		}
	}
	if res.wantSample() && F != nil && r.chance(1, 6) {
		res.sample(map[string]any{"family": sc.Family, "behaviour_sequence": clipList(seq, 12), "verdict": clip(cr.rp.Raw, 120)})
	}
}

// TestDeadlineChild only runs in the child process started by the C09 "deadline" family.
func TestDeadlineChild(t *testing.T) {
	mode := os.Getenv("C09_DEADLINE_MODE")
	if mode == "" {
		t.Skip("not a deadline child")
	}
	fmt.Println("DEADLINE-CHILD-RAN")
	calls := 0
	if mode == "3" {
		rapid.Check(t, func(rt *rapid.T) {
			calls++
			rapid.Uint8().Draw(rt, "v")
			if calls == 3 {
				time.Sleep(4 * time.Second)
			}
			if calls >= 3 {
				rt.Fatalf("slow case falsified")
			}
		})
		return
	}
	if mode == "2" {
		rapid.Check(t, func(rt *rapid.T) {
			calls++
			rapid.Uint8().Draw(rt, "v")
		})
		fmt.Println("DEADLINE-CHILD-CALLS", calls)
		return
	}
	if mode == "4" {
		defer os.RemoveAll("testdata")
		saved := map[string]string{}
		flag.VisitAll(func(f *flag.Flag) {
			if strings.HasPrefix(f.Name, "rapid.") {
				saved[f.Name] = f.Value.String()
			}
		})
		ver := rapidVersion() // (runs a Check under flags of its own)
		for k, v := range saved {
			_ = flag.Set(k, v)
		}
		writeFailFile(t.Name(), "20260101000000-1", ver, 1, []uint64{7, 7, 7, 7}, "still fails")
		random := 0
		defer func() { fmt.Println("DEADLINE-CHILD-RANDOM-CASES", random) }()
		rapid.Check(t, func(rt *rapid.T) {
			rapid.Uint8().Draw(rt, "v")
			if rapid.VerifStreamOf(rt).Kind == "buffer" {
				rt.Fatalf("the saved test case still fails")
			}
			random++
		})
		return
	}
	rapid.Check(t, func(rt *rapid.T) {
		calls++
		rapid.Uint8().Draw(rt, "v")
		time.Sleep(40 * time.Millisecond)
		if mode == "0" || calls%2 == 0 {
			rt.Skip("not valid")
		}
	})
}
