package harness

// Generator-expression grammar with a contract checker per node (C03, and the
// draw steps of generated programs).  Every expression is built from a PRNG
// and yields a *rapid.Generator[any] plus an independent oracle for the values
// it may return.

import (
	"fmt"
	"math"
	"reflect"
	"regexp"
	"strings"
	"unicode"
	"unicode/utf8"

	"pgregory.net/rapid"
)

type GX struct {
	Desc  string
	Gen   *rapid.Generator[any]
	Check func(v any) string // "" = in contract
	Cmp   bool               // hashable, usable as map key
	Int   bool               // integer-like (intView is the value itself)
	Rej   bool               // rejection-heavy expression
	post  func() string      // post-condition on generator inputs (e.g. source slice unmodified)
}

func (g *GX) checkAll(v any) string {
	if s := g.Check(v); s != "" {
		return s
	}
	if g.post != nil {
		return g.post()
	}
	return ""
}

type gxOpts struct {
	depth    int
	noCustom bool // Custom nodes call user code on an inner T; some monitors want pure data
	small    bool // keep domains tiny (rejection-heavy, shrinks fast)
}

// ---------------------------------------------------------------------------
// integer leaves

type integer interface {
	~int | ~int8 | ~int16 | ~int32 | ~int64 | ~uint | ~uint8 | ~uint16 | ~uint32 | ~uint64 | ~uintptr
}

var sExtremes = []int64{
	math.MinInt64, math.MinInt64 + 1, -(1 << 62) - 1, -(1 << 62), -(1 << 62) + 1, math.MinInt32 - 1, math.MinInt32, math.MinInt32 + 1,
	math.MinInt16, math.MinInt8 - 1, math.MinInt8, -65, -64, -3, -2, -1, 0, 1, 2, 3, 4, 5, 6, 63, 64, 126, 127, 128, 255, 256,
	math.MaxInt16, math.MaxInt16 + 1, math.MaxInt32 - 1, math.MaxInt32, math.MaxInt32 + 1, 1<<53 - 1, 1 << 53, 1<<55 - 1, 1 << 55, 1<<56 - 1, 1 << 56,
	1<<59 - 1, 1 << 59, 1<<60 - 1, 1 << 60, 1<<61 - 1, 1 << 61, 1<<62 - 1, 1 << 62, 1<<62 + 1, math.MaxInt64 - 1, math.MaxInt64,
}

var uExtremes = []uint64{
	0, 1, 2, 3, 4, 5, 6, 7, 8, 127, 128, 254, 255, 256, 65534, 65535, 65536, 1<<31 - 1, 1 << 31, 1<<32 - 2, 1<<32 - 1, 1 << 32,
	1<<55 - 1, 1 << 55, 1<<56 - 1, 1 << 56, 1<<59 - 1, 1 << 59, 1<<60 - 1, 1 << 60, 1<<62 - 1, 1 << 62, 1<<63 - 1, 1 << 63, 1<<63 + 1,
	math.MaxUint64 - 1, math.MaxUint64,
}

func sBound[I integer](r *rng, lo, hi int64) I {
	for {
		var c int64
		switch r.intn(4) {
		case 0:
			c = int64(r.next())
		case 1:
			c = int64(r.next()) >> uint(r.intn(64))
		default:
			c = pick(r, sExtremes)
		}
		if c >= lo && c <= hi {
			return I(c)
		}
		if r.chance(1, 3) {
			if r.chance(1, 2) {
				return I(lo)
			}
			return I(hi)
		}
	}
}

func uBound[I integer](r *rng, hi uint64) I {
	for {
		var c uint64
		switch r.intn(4) {
		case 0:
			c = r.next()
		case 1:
			c = r.next() >> uint(r.intn(64))
		default:
			c = pick(r, uExtremes)
		}
		if c <= hi {
			return I(c)
		}
		if r.chance(1, 3) {
			return I(hi)
		}
	}
}

type intCtors[I integer] struct {
	name string
	full func() *rapid.Generator[I]
	min  func(I) *rapid.Generator[I]
	max  func(I) *rapid.Generator[I]
	rng  func(I, I) *rapid.Generator[I]
}

func intLeaf[I integer](c intCtors[I], signed bool, lo, hi int64, uhi uint64, r *rng, o gxOpts) *GX {
	var tmin, tmax I
	if signed {
		tmin, tmax = I(lo), I(hi)
	} else {
		tmin, tmax = 0, I(uhi)
	}
	a, b := tmin, tmax
	var g *rapid.Generator[I]
	var desc string
	form := r.intn(10)
	if o.small {
		form = 9
	}
	bound := func() I {
		if signed {
			return sBound[I](r, lo, hi)
		}
		return uBound[I](r, uhi)
	}
	switch {
	case form < 2:
		g, desc = c.full(), c.name+"()"
	case form < 4:
		a = bound()
		g, desc = c.min(a), fmt.Sprintf("%sMin(%v)", c.name, a)
	case form < 6:
		b = bound()
		g, desc = c.max(b), fmt.Sprintf("%sMax(%v)", c.name, b)
	case form < 9:
		a, b = bound(), bound()
		if a > b {
			a, b = b, a
		}
		switch r.intn(6) {
		case 0:
			b = a // one-element domain
		case 1:
			if a < tmax {
				b = a + 1
			}
		}
		g, desc = c.rng(a, b), fmt.Sprintf("%sRange(%v, %v)", c.name, a, b)
	default: // tiny domain near zero / near an extreme
		w := I(r.intn(4))
		switch r.intn(3) {
		case 0:
			a = 0
			if signed && r.chance(1, 2) && w > 0 {
				a = 0 - I(r.intn(int(w)+1))
			}
			b = a + w
		case 1:
			b = tmax
			a = tmax - w
		default:
			a = tmin
			b = tmin + w
		}
		g, desc = c.rng(a, b), fmt.Sprintf("%sRange(%v, %v)", c.name, a, b)
	}
	return &GX{
		Desc: desc, Gen: g.AsAny(), Cmp: true, Int: true,
		Check: func(v any) string {
			x, ok := v.(I)
			if !ok {
				return fmt.Sprintf("%s returned dynamic type %T", desc, v)
			}
			if x < a || x > b {
				return fmt.Sprintf("%s returned %v outside [%v, %v]", desc, x, a, b)
			}
			return ""
		},
	}
}

func gxInt(r *rng, o gxOpts) *GX {
	k := r.intn(13)
	if o.small {
		k = pick(r, []int{0, 1, 5, 7})
	}
	switch k {
	case 0:
		return intLeaf(intCtors[int]{"Int", rapid.Int, rapid.IntMin, rapid.IntMax, rapid.IntRange}, true, math.MinInt, math.MaxInt, 0, r, o)
	case 1:
		return intLeaf(intCtors[int8]{"Int8", rapid.Int8, rapid.Int8Min, rapid.Int8Max, rapid.Int8Range}, true, math.MinInt8, math.MaxInt8, 0, r, o)
	case 2:
		return intLeaf(intCtors[int16]{"Int16", rapid.Int16, rapid.Int16Min, rapid.Int16Max, rapid.Int16Range}, true, math.MinInt16, math.MaxInt16, 0, r, o)
	case 3:
		return intLeaf(intCtors[int32]{"Int32", rapid.Int32, rapid.Int32Min, rapid.Int32Max, rapid.Int32Range}, true, math.MinInt32, math.MaxInt32, 0, r, o)
	case 4:
		return intLeaf(intCtors[int64]{"Int64", rapid.Int64, rapid.Int64Min, rapid.Int64Max, rapid.Int64Range}, true, math.MinInt64, math.MaxInt64, 0, r, o)
	case 5:
		return intLeaf(intCtors[uint]{"Uint", rapid.Uint, rapid.UintMin, rapid.UintMax, rapid.UintRange}, false, 0, 0, math.MaxUint, r, o)
	case 6:
		return intLeaf(intCtors[uint8]{"Uint8", rapid.Uint8, rapid.Uint8Min, rapid.Uint8Max, rapid.Uint8Range}, false, 0, 0, math.MaxUint8, r, o)
	case 7:
		return intLeaf(intCtors[byte]{"Byte", rapid.Byte, rapid.ByteMin, rapid.ByteMax, rapid.ByteRange}, false, 0, 0, math.MaxUint8, r, o)
	case 8:
		return intLeaf(intCtors[uint16]{"Uint16", rapid.Uint16, rapid.Uint16Min, rapid.Uint16Max, rapid.Uint16Range}, false, 0, 0, math.MaxUint16, r, o)
	case 9:
		return intLeaf(intCtors[uint32]{"Uint32", rapid.Uint32, rapid.Uint32Min, rapid.Uint32Max, rapid.Uint32Range}, false, 0, 0, math.MaxUint32, r, o)
	case 10:
		return intLeaf(intCtors[uint64]{"Uint64", rapid.Uint64, rapid.Uint64Min, rapid.Uint64Max, rapid.Uint64Range}, false, 0, 0, math.MaxUint64, r, o)
	case 11:
		return intLeaf(intCtors[uintptr]{"Uintptr", rapid.Uintptr, rapid.UintptrMin, rapid.UintptrMax, rapid.UintptrRange}, false, 0, 0, math.MaxUint64, r, o)
	default:
		return &GX{Desc: "Bool()", Gen: rapid.Bool().AsAny(), Cmp: true, Int: true, Check: func(v any) string {
			if _, ok := v.(bool); !ok {
				return fmt.Sprintf("Bool() returned %T", v)
			}
			return ""
		}}
	}
}

// ---------------------------------------------------------------------------
// float leaves

func f64Bound(r *rng) float64 {
	switch r.intn(14) {
	case 0:
		return 0
	case 1:
		return math.Copysign(0, -1)
	case 2:
		return math.SmallestNonzeroFloat64
	case 3:
		return -math.SmallestNonzeroFloat64
	case 4:
		return math.MaxFloat64
	case 5:
		return -math.MaxFloat64
	case 6:
		return math.Inf(1)
	case 7:
		return math.Inf(-1)
	case 8:
		return float64(int64(r.next()) >> uint(r.intn(64)))
	case 9:
		return math.Float64frombits(r.next()&^(0x7ff<<52) | uint64(r.intn(2047))<<52) // any finite exponent
	case 10:
		return 0x1p-1022 // smallest normal
	case 11:
		return math.Nextafter(0x1p-1022, 0) // largest denormal
	case 12:
		return float64(r.intn(7)) - 3
	default:
		return (float64(r.next()>>11) / (1 << 53)) * 2
	}
}

func f32Bound(r *rng) float32 {
	switch r.intn(13) {
	case 0:
		return 0
	case 1:
		return float32(math.Copysign(0, -1))
	case 2:
		return math.SmallestNonzeroFloat32
	case 3:
		return -math.SmallestNonzeroFloat32
	case 4:
		return math.MaxFloat32
	case 5:
		return -math.MaxFloat32
	case 6:
		return float32(math.Inf(1))
	case 7:
		return float32(math.Inf(-1))
	case 8:
		return float32(int32(r.next()) >> uint(r.intn(32)))
	case 9:
		return math.Float32frombits(uint32(r.next())&^(0xff<<23) | uint32(r.intn(255))<<23)
	case 10:
		return 0x1p-126
	case 11:
		return float32(r.intn(7)) - 3
	default:
		return float32(r.next()>>40) / (1 << 24) * 2
	}
}

func gxFloat(r *rng, o gxOpts) *GX {
	form := r.intn(8)
	if r.chance(1, 2) {
		a, b := f64Bound(r), f64Bound(r)
		lo, hi := -math.MaxFloat64, math.MaxFloat64
		var g *rapid.Generator[float64]
		var desc string
		switch {
		case form < 1:
			g, desc = rapid.Float64(), "Float64()"
		case form < 2:
			if a > math.MaxFloat64 {
				a = math.MaxFloat64 // Float64Min(+Inf) is an empty (invalid) range
			}
			lo = a
			g, desc = rapid.Float64Min(a), fmt.Sprintf("Float64Min(%v)", a)
		case form < 3:
			if b < -math.MaxFloat64 {
				b = -math.MaxFloat64
			}
			hi = b
			g, desc = rapid.Float64Max(b), fmt.Sprintf("Float64Max(%v)", b)
		default:
			if a > b {
				a, b = b, a
			}
			switch r.intn(5) {
			case 0:
				b = a
			case 1:
				b = math.Nextafter(a, math.Inf(1))
			case 2:
				a = math.Nextafter(b, math.Inf(-1))
			}
			lo, hi = a, b
			g, desc = rapid.Float64Range(a, b), fmt.Sprintf("Float64Range(%v, %v)", a, b)
		}
		infOK := math.IsInf(lo, 0) || math.IsInf(hi, 0)
		return &GX{Desc: desc, Gen: g.AsAny(), Cmp: true, Check: func(v any) string {
			x, ok := v.(float64)
			if !ok {
				return fmt.Sprintf("%s returned %T", desc, v)
			}
			if x != x {
				return desc + " returned NaN"
			}
			if x < lo || x > hi {
				return fmt.Sprintf("%s returned %v (%#x) outside the range", desc, x, math.Float64bits(x))
			}
			if math.IsInf(x, 0) && !infOK {
				return fmt.Sprintf("%s returned %v although no bound is infinite", desc, x)
			}
			return ""
		}}
	}
	a, b := f32Bound(r), f32Bound(r)
	lo, hi := float32(-math.MaxFloat32), float32(math.MaxFloat32)
	var g *rapid.Generator[float32]
	var desc string
	switch {
	case form < 1:
		g, desc = rapid.Float32(), "Float32()"
	case form < 2:
		if a > math.MaxFloat32 {
			a = math.MaxFloat32
		}
		lo = a
		g, desc = rapid.Float32Min(a), fmt.Sprintf("Float32Min(%v)", a)
	case form < 3:
		if b < -math.MaxFloat32 {
			b = -math.MaxFloat32
		}
		hi = b
		g, desc = rapid.Float32Max(b), fmt.Sprintf("Float32Max(%v)", b)
	default:
		if a > b {
			a, b = b, a
		}
		switch r.intn(5) {
		case 0:
			b = a
		case 1:
			b = math.Nextafter32(a, float32(math.Inf(1)))
		case 2:
			a = math.Nextafter32(b, float32(math.Inf(-1)))
		}
		lo, hi = a, b
		g, desc = rapid.Float32Range(a, b), fmt.Sprintf("Float32Range(%v, %v)", a, b)
	}
	infOK := math.IsInf(float64(lo), 0) || math.IsInf(float64(hi), 0)
	return &GX{Desc: desc, Gen: g.AsAny(), Cmp: true, Check: func(v any) string {
		x, ok := v.(float32)
		if !ok {
			return fmt.Sprintf("%s returned %T", desc, v)
		}
		if x != x {
			return desc + " returned NaN"
		}
		if x < lo || x > hi {
			return fmt.Sprintf("%s returned %v (%#x) outside the range", desc, x, math.Float32bits(x))
		}
		if math.IsInf(float64(x), 0) && !infOK {
			return fmt.Sprintf("%s returned %v although no bound is infinite", desc, x)
		}
		return ""
	}}
}

// ---------------------------------------------------------------------------
// runes and strings

var defaultRunesCopy = []rune{
	'A', 'a', '?', '~', '!', '@', '#', '$', '%', '^', '&', '*', '_', '-', '+', '=', '.', ',', ':', ';', ' ', '\t', '\r', '\n',
	'/', '\\', '|', '(', '[', '{', '<', '\'', '"', '`', '\x00', '\x0B', '\x1B', '\x7F', '\uFEFF', '\uFFFD', '\u202E', 'Ⱥ',
}

var defaultTablesCopy = []*unicode.RangeTable{
	unicode.Lu, unicode.Ll, unicode.Lt, unicode.Lm, unicode.Lo, unicode.Nd, unicode.Nl, unicode.No, unicode.P, unicode.Sm,
	unicode.Sc, unicode.Sk, unicode.So, unicode.Mn, unicode.Me, unicode.Mc, unicode.Z, unicode.Cc, unicode.Cf, unicode.Co,
}

func runeIn(x rune, runes []rune, tables []*unicode.RangeTable) bool {
	for _, q := range runes {
		if q == x {
			return true
		}
	}
	return unicode.In(x, tables...)
}

type runeSpec struct {
	desc   string
	gen    *rapid.Generator[rune]
	member func(rune) bool
}

var tableChoices = []struct {
	n string
	t *unicode.RangeTable
}{
	{"Lu", unicode.Lu}, {"Nd", unicode.Nd}, {"Greek", unicode.Greek}, {"Han", unicode.Han}, {"Sc", unicode.Sc},
	{"Zs", unicode.Zs}, {"ASCII_Hex_Digit", unicode.ASCII_Hex_Digit}, {"Co", unicode.Co}, {"Me", unicode.Me},
	// tables of the user's own that cover the same ranges with different strides (a table is more than its Lo/Hi pairs)
	{"user[100-140/1]", &unicode.RangeTable{R16: []unicode.Range16{{Lo: 0x100, Hi: 0x140, Stride: 1}}}},
	{"user[100-140/2]", &unicode.RangeTable{R16: []unicode.Range16{{Lo: 0x100, Hi: 0x140, Stride: 2}}}},
	{"user[100-13f/3]", &unicode.RangeTable{R16: []unicode.Range16{{Lo: 0x100, Hi: 0x13f, Stride: 3}}}},
	{"user[10000-10100/16]", &unicode.RangeTable{R32: []unicode.Range32{{Lo: 0x10000, Hi: 0x10100, Stride: 16}}}},
	{"user[10000-10100/1]", &unicode.RangeTable{R32: []unicode.Range32{{Lo: 0x10000, Hi: 0x10100, Stride: 1}}}},
	{"user[41-5a/1,100-140/8]", &unicode.RangeTable{R16: []unicode.Range16{{Lo: 0x41, Hi: 0x5a, Stride: 1}, {Lo: 0x100, Hi: 0x140, Stride: 8}}, LatinOffset: 1}},
	{"user[41-5a/5,100-140/1]", &unicode.RangeTable{R16: []unicode.Range16{{Lo: 0x41, Hi: 0x5a, Stride: 5}, {Lo: 0x100, Hi: 0x140, Stride: 1}}, LatinOffset: 1}},
}

var runeChoices = [][]rune{
	[]rune("hello world"), {'z', 'z', 'y', 'z', 'x'}, // a rune may be listed more than once: same list, same order, same draws
	{'a'}, {'a', 'b'}, {'a', 'b', 'c'}, {'x', 'é', '世', '😀'}, {'\x00', '\n', ' '}, {'😀'}, {'é', 'ü'}, {utf8.MaxRune, 'a'}, {'\uFFFD'},
}

func rxRune(r *rng, o gxOpts) runeSpec {
	if !o.small && r.chance(1, 3) {
		return runeSpec{"Rune()", rapid.Rune(), func(x rune) bool { return runeIn(x, defaultRunesCopy, defaultTablesCopy) }}
	}
	var runes []rune
	var tables []*unicode.RangeTable
	var tn []string
	mode := r.intn(3)
	if o.small {
		mode = 0
	}
	if mode != 1 {
		runes = pick(r, runeChoices)
	}
	if mode != 0 {
		for i, n := 0, r.between(1, 2); i < n; i++ {
			c := pick(r, tableChoices)
			tables = append(tables, c.t)
			tn = append(tn, c.n)
		}
	}
	desc := fmt.Sprintf("RuneFrom(%q, %s)", string(runes), strings.Join(tn, "+"))
	return runeSpec{desc, rapid.RuneFrom(runes, tables...), func(x rune) bool { return runeIn(x, runes, tables) }}
}

func gxRune(r *rng, o gxOpts) *GX {
	if r.chance(1, 8) {
		// a list that also holds values which cannot be encoded (surrogate halves, out of range): the generator yields
		// what is listed, and the caller's slice stays the caller's
		list := append([]rune(nil), pick(r, [][]rune{{0xD800, 'a', 'b'}, {'a', 0xDFFF, 'b', -1}, {0x110000, 'q'}, {'x', 'y', 0xDC00}})...)
		orig := append([]rune(nil), list...)
		desc := fmt.Sprintf("RuneFrom(%U)", orig)
		return &GX{Desc: desc, Gen: rapid.RuneFrom(list).AsAny(), Cmp: true, Int: true, post: func() string {
			if !reflect.DeepEqual(list, orig) {
				return fmt.Sprintf("the rune list given to RuneFrom was modified: %U -> %U", orig, list)
			}
			return ""
		}, Check: func(v any) string {
			x, ok := v.(rune)
			if !ok {
				return fmt.Sprintf("%s returned %T", desc, v)
			}
			if !runeIn(x, orig, nil) {
				return fmt.Sprintf("%s returned %#x which is not in the list", desc, x)
			}
			return ""
		}}
	}
	rs := rxRune(r, o)
	return &GX{Desc: rs.desc, Gen: rs.gen.AsAny(), Cmp: true, Int: true, Check: func(v any) string {
		x, ok := v.(rune)
		if !ok {
			return fmt.Sprintf("%s returned %T", rs.desc, v)
		}
		if !utf8.ValidRune(x) {
			return fmt.Sprintf("%s returned invalid rune %#x", rs.desc, x)
		}
		if !rs.member(x) {
			return fmt.Sprintf("%s returned %q (%#x) which is not in the requested set", rs.desc, x, x)
		}
		return ""
	}}
}

// lenBounds picks (min,max) for collections; -1 means unbounded.
func lenBounds(r *rng, o gxOpts) (int, int) {
	hi := 6
	if o.small {
		hi = 3
	}
	switch r.intn(8) {
	case 0:
		return -1, -1
	case 1:
		return r.intn(hi), -1
	case 2:
		return -1, r.intn(hi)
	case 3:
		n := r.intn(hi)
		return n, n
	case 4:
		return 0, 0
	case 5:
		return -1, 0
	default:
		a := r.intn(hi)
		return a, a + r.intn(hi)
	}
}

func checkLen(desc string, n, min, max int) string {
	if min >= 0 && n < min {
		return fmt.Sprintf("%s: length %d below minimum %d", desc, n, min)
	}
	if max >= 0 && n > max {
		return fmt.Sprintf("%s: length %d above maximum %d", desc, n, max)
	}
	return ""
}

func gxString(r *rng, o gxOpts) *GX {
	if r.chance(1, 6) {
		// any *Generator[rune] is accepted as the element generator - also one that can yield values that are not
		// runes (negative, surrogates, beyond MaxRune): the string must be valid UTF-8 all the same
		var eg *rapid.Generator[rune]
		var ed string
		var member func(x rune) bool
		switch r.intn(4) {
		case 0:
			eg, ed = rapid.Int32Range(-200, 'z'), "Int32Range(-200,'z')"
			member = func(x rune) bool { return x >= 0 && x <= 'z' }
		case 1:
			eg, ed = rapid.Int32(), "Int32()"
			member = func(x rune) bool { return true }
		case 2:
			eg, ed = rapid.SampledFrom([]rune{'a', -1, 0xD800, 0x110000, 'é', -128}), "SampledFrom('a',-1,0xD800,0x110000,'é',-128)"
			member = func(x rune) bool { return x == 'a' || x == 'é' }
		default:
			eg, ed = rapid.Int32Range(0xD700, 0xE100), "Int32Range(0xD700,0xE100)"
			member = func(x rune) bool { return (x >= 0xD700 && x < 0xD800) || (x >= 0xE000 && x <= 0xE100) }
		}
		maxR := r.between(1, 6)
		maxLen := -1
		switch r.intn(3) {
		case 0:
			// a byte limit as well: values that cannot be encoded must not count against it nor slip past it
			maxLen = maxR + r.intn(3)
		case 1:
			maxLen, maxR = r.intn(5), -1
		}
		desc := fmt.Sprintf("StringOfN(%s, 0, %d, %d)", ed, maxR, maxLen)
		return &GX{Desc: desc, Gen: rapid.StringOfN(eg, 0, maxR, maxLen).AsAny(), Cmp: true, Rej: true, Check: func(v any) string {
			s, ok := v.(string)
			if !ok {
				return fmt.Sprintf("%s returned %T", desc, v)
			}
			if !utf8.ValidString(s) {
				return fmt.Sprintf("%s returned invalid UTF-8 %q", desc, s)
			}
			for _, x := range s {
				if !member(x) {
					return fmt.Sprintf("%s returned %q containing %U, which the element generator cannot produce as a rune", desc, s, x)
				}
			}
			if m := checkLen(desc+" byte length", len(s), -1, maxLen); m != "" {
				return m
			}
			return checkLen(desc+" rune count", utf8.RuneCountInString(s), 0, maxR)
		}}
	}
	form := r.intn(4)
	var rs runeSpec
	if form >= 2 {
		rs = rxRune(r, o)
	} else {
		rs = runeSpec{"Rune()", nil, func(x rune) bool { return runeIn(x, defaultRunesCopy, defaultTablesCopy) }}
	}
	minR, maxR, maxLen := -1, -1, -1
	if form == 1 || form == 3 {
		minR, maxR = lenBounds(r, o)
		switch r.intn(4) {
		case 0:
			maxLen = -1
		case 1:
			if maxR >= 0 {
				maxLen = maxR // tight: multi-byte runes must be rejected
			} else {
				maxLen = r.between(0, 8)
				if minR > maxLen {
					minR = maxLen
				}
			}
		default:
			if maxR >= 0 {
				maxLen = maxR + r.intn(6)
			} else {
				maxLen = r.between(1, 12)
				if minR > maxLen {
					minR = maxLen
				}
			}
		}
	}
	var g *rapid.Generator[string]
	var desc string
	switch form {
	case 0:
		g, desc = rapid.String(), "String()"
	case 1:
		g, desc = rapid.StringN(minR, maxR, maxLen), fmt.Sprintf("StringN(%d, %d, %d)", minR, maxR, maxLen)
	case 2:
		g, desc = rapid.StringOf(rs.gen), fmt.Sprintf("StringOf(%s)", rs.desc)
	default:
		g, desc = rapid.StringOfN(rs.gen, minR, maxR, maxLen), fmt.Sprintf("StringOfN(%s, %d, %d, %d)", rs.desc, minR, maxR, maxLen)
	}
	return &GX{Desc: desc, Gen: g.AsAny(), Cmp: true, Rej: maxLen >= 0, Check: func(v any) string {
		s, ok := v.(string)
		if !ok {
			return fmt.Sprintf("%s returned %T", desc, v)
		}
		if !utf8.ValidString(s) {
			return fmt.Sprintf("%s returned invalid UTF-8 %q", desc, s)
		}
		if c := checkLen(desc+" rune count", utf8.RuneCountInString(s), minR, maxR); c != "" {
			return c
		}
		if maxLen >= 0 && len(s) > maxLen {
			return fmt.Sprintf("%s returned %d bytes > maxLen %d", desc, len(s), maxLen)
		}
		for _, x := range s {
			if !rs.member(x) {
				return fmt.Sprintf("%s returned rune %q (%#x) outside the element generator's set", desc, x, x)
			}
		}
		return ""
	}}
}

var regexps = []string{
	`[a-z]+`, `\d{2,4}-\d{2}`, `(foo|bar)*baz`, `(?i)abc[x-z]?`, `^\w+@\w+\.com$`, `[^a-z]{0,3}`, `.`, `(?s).{0,4}x`,
	`\pL{1,3}`, `a{3}`, `[[:alpha:]][[:digit:]]*`, ``, `\b\w+\b`, `[\x00-\x1f]{2}`, `(a|b|c){2,5}`, `[😀-😏]{1,2}`,
	`x*y+z?`, `(?m)^ab$`, `[^\n]{1,3}`, `(?i)[k-m]{2}`, `\PL`, `[а-яё]{0,6}`, `(ab){0,3}c{0,2}`, `\w\W\s\S\d\D`, `a\z`, `\Aa`,
	// long unicode classes sharing a long common prefix; the same class text under different case-folding flags;
	// patterns whose generated candidates are often rejected by the match re-check
	`\p{Lu}+`, `[\p{Lu}\p{Lt}]{1,6}`, `\p{Greek}{1,4}`, `[\p{Greek}\p{Cyrillic}]{1,4}`, `(?i)[a-c]{1,4}`, `[A-Ca-c]{1,4}`, `[K-Mk-m]{2}`,
	`\bid\b.`, `[a-z]+ ?\B[.]`, `\B.\B`, `\b\w{1,3}\b\W?`,
}

// gxSalt, when set, makes every regexp pattern text unique to the current round (the regexp caches are process wide).
var gxSalt string

func gxRegexp(r *rng, salt string) *GX {
	expr := pick(r, regexps)
	if salt == "" {
		salt = gxSalt
	}
	if salt != "" {
		expr = expr + `(?:` + salt + `)?` // unique pattern text: the caches are process wide
		if r.chance(1, 2) {
			// a large character class that no earlier round used: its rune table is expanded and cached on first use
			h := hashStr(salt)
			lo := rune(0x4e00 + h%2000)
			expr = fmt.Sprintf(`[%c-%c%c]{1,3}`, lo, lo+rune(6000+h%9000), rune(0x1F600+h%64)) + `(?:` + salt + `)?`
		}
	}
	return gxRegexpOf(expr, r.chance(1, 2))
}

// rejRegexps are the patterns whose generated candidates are often rejected by the match re-check (empty-width
// assertions): the value returned must not depend on the rejected attempts.
var rejRegexps = []string{`\bid\b.`, `[a-z]+ ?\B[.]`, `\B.\B`, `\b\w{1,3}\b\W?`, `\b\w+\b`, `(?m)^ab$`, `a\z`, `\Aa`, `^\w+@\w+\.com$`, `\B[a-c]{0,2}\B`, `x?\b-?\b`}

func gxRegexpOf(expr string, asString bool) *GX {
	re := regexp.MustCompile(expr)
	if asString {
		desc := fmt.Sprintf("StringMatching(%q)", expr)
		return &GX{Desc: desc, Gen: rapid.StringMatching(expr).AsAny(), Cmp: true, Rej: true, Check: func(v any) string {
			s, ok := v.(string)
			if !ok {
				return fmt.Sprintf("%s returned %T", desc, v)
			}
			if !utf8.ValidString(s) {
				return fmt.Sprintf("%s returned invalid UTF-8 %q", desc, s)
			}
			if !re.MatchString(s) {
				return fmt.Sprintf("%s returned %q which does not match", desc, s)
			}
			return ""
		}}
	}
	desc := fmt.Sprintf("SliceOfBytesMatching(%q)", expr)
	return &GX{Desc: desc, Gen: rapid.SliceOfBytesMatching(expr).AsAny(), Rej: true, Check: func(v any) string {
		s, ok := v.([]byte)
		if !ok {
			return fmt.Sprintf("%s returned %T", desc, v)
		}
		if !utf8.Valid(s) {
			return fmt.Sprintf("%s returned invalid UTF-8 %q", desc, s)
		}
		if !re.Match(s) {
			return fmt.Sprintf("%s returned %q which does not match", desc, s)
		}
		return ""
	}}
}

// ---------------------------------------------------------------------------
// sampled / permutation

func gxSampled(r *rng, o gxOpts) *GX {
	n := r.between(1, 7)
	src := make([]int, n)
	for i := range src {
		src[i] = r.intn(10) - 3
	}
	orig := append([]int(nil), src...)
	unmodified := func() string {
		if !reflect.DeepEqual(src, orig) {
			return fmt.Sprintf("input slice was modified: %v -> %v", orig, src)
		}
		return ""
	}
	switch r.intn(3) {
	case 0:
		desc := fmt.Sprintf("SampledFrom(%v)", orig)
		return &GX{Desc: desc, Gen: rapid.SampledFrom(src).AsAny(), Cmp: true, Int: true, post: unmodified, Check: func(v any) string {
			x, ok := v.(int)
			if !ok {
				return fmt.Sprintf("%s returned %T", desc, v)
			}
			for _, q := range orig {
				if q == x {
					return ""
				}
			}
			return fmt.Sprintf("%s returned %v which is not an element", desc, x)
		}}
	case 1:
		val := orig[0]
		desc := fmt.Sprintf("Just(%v)", val)
		return &GX{Desc: desc, Gen: rapid.Just(val).AsAny(), Cmp: true, Int: true, Check: func(v any) string {
			if x, ok := v.(int); !ok || x != val {
				return fmt.Sprintf("%s returned %#v", desc, v)
			}
			return ""
		}}
	default:
		if r.chance(1, 6) {
			src, orig = nil, nil
		}
		desc := fmt.Sprintf("Permutation(%v)", orig)
		pg := rapid.Permutation(src).AsAny()
		if r.chance(1, 2) {
			// drawn from directly (typed), not through AsAny: the generator's own label is then computed by rapid itself
			// rather than inside a fmt verb (which would swallow a panic of String())
			typed := rapid.Permutation(src)
			pg = rapid.Custom(func(t *rapid.T) any { return typed.Draw(t, "perm") })
			desc = fmt.Sprintf("Custom{Permutation(%v).Draw}", orig)
		}
		return &GX{Desc: desc, Gen: pg, post: unmodified, Check: func(v any) string {
			x, ok := v.([]int)
			if !ok {
				return fmt.Sprintf("%s returned %T", desc, v)
			}
			if len(x) != len(orig) {
				return fmt.Sprintf("%s returned %v (length differs)", desc, x)
			}
			cnt := map[int]int{}
			for _, q := range orig {
				cnt[q]++
			}
			for _, q := range x {
				cnt[q]--
			}
			for _, c := range cnt {
				if c != 0 {
					return fmt.Sprintf("%s returned %v which is not a permutation", desc, x)
				}
			}
			if len(src) > 0 && len(x) > 0 && &x[0] == &src[0] {
				return desc + " returned the input slice itself"
			}
			return ""
		}}
	}
}

// ---------------------------------------------------------------------------
// Make[T]

type mkNamedInt int16
type mkNamedStr string
type mkPair struct {
	A int8
	B string
}
type mkRec struct {
	N mkNamedInt
	P *mkPair
	S []mkNamedStr
	M map[uint8]bool
	F float32
	Z struct{}
	R [2]uint16
}

// mkTree is deliberately sub-critical (one recursive pointer): with two, as in rapid's own
// ExampleMake_tree, the expected size of a PRNG-generated value is infinite and some seeds
// exhaust memory - an observation about critical recursive types, not something C03 judges.
type mkTree struct {
	V     byte
	Left  *mkTree
	Right *mkPair
}

func mkGX[V any](name string) *GX {
	var zero V
	want := reflect.TypeOf(zero)
	return &GX{Desc: "Make[" + name + "]()", Gen: rapid.Make[V]().AsAny(), Rej: true, Check: func(v any) string {
		if reflect.TypeOf(v) != want {
			return fmt.Sprintf("Make[%s]() returned dynamic type %T", name, v)
		}
		return checkMade(reflect.ValueOf(v), 0)
	}}
}

// checkMade walks a Make-generated value: floats are never NaN, strings are valid UTF-8.
func checkMade(v reflect.Value, depth int) string {
	if depth > 200 {
		return ""
	}
	switch v.Kind() {
	case reflect.Float32, reflect.Float64:
		if f := v.Float(); f != f || math.IsInf(f, 0) {
			return fmt.Sprintf("Make produced float %v", f)
		}
	case reflect.String:
		if !utf8.ValidString(v.String()) {
			return fmt.Sprintf("Make produced invalid UTF-8 %q", v.String())
		}
	case reflect.Pointer:
		if !v.IsNil() {
			return checkMade(v.Elem(), depth+1)
		}
	case reflect.Slice, reflect.Array:
		for i := 0; i < v.Len(); i++ {
			if s := checkMade(v.Index(i), depth+1); s != "" {
				return s
			}
		}
	case reflect.Map:
		it := v.MapRange()
		for it.Next() {
			if s := checkMade(it.Key(), depth+1); s != "" {
				return s
			}
			if s := checkMade(it.Value(), depth+1); s != "" {
				return s
			}
		}
	case reflect.Struct:
		for i := 0; i < v.NumField(); i++ {
			if s := checkMade(v.Field(i), depth+1); s != "" {
				return s
			}
		}
	}
	return ""
}

// Two distinct types with the same name (declared in different scopes): Make must give each its own type.
func mkLocalA() *GX {
	type record struct {
		A int8
		B bool
	}
	return mkGX[record]("record(scope A)")
}

func mkLocalB() *GX {
	type record struct {
		Name string
		N    []uint16
	}
	return mkGX[record]("record(scope B)")
}

// defined (named) types whose underlying type is a basic one, used as slice/array elements and map keys
type mkOctet uint8
type mkWord uint16
type mkLabel string
type mkFlag bool
type mkOctets []mkOctet
type mkPacket struct {
	Hdr  [2]mkOctet
	Body []mkOctet
	Tags map[mkLabel]mkFlag
	W    []mkWord
	Raw  []byte
	Blob mkOctets
}

func gxMake(r *rng) *GX {
	if r.chance(1, 4) {
		switch r.intn(6) {
		case 0:
			return mkGX[[]mkOctet]("[]mkOctet")
		case 1:
			return mkGX[mkPacket]("mkPacket")
		case 2:
			return mkGX[map[mkLabel][]mkWord]("map[mkLabel][]mkWord")
		case 3:
			return mkGX[mkOctets]("mkOctets")
		case 4:
			return mkGX[[]mkFlag]("[]mkFlag")
		default:
			return mkGX[*[]mkLabel]("*[]mkLabel")
		}
	}
	switch r.intn(12) {
	case 10:
		return mkLocalA()
	case 11:
		return mkLocalB()
	case 0:
		return mkGX[mkNamedInt]("mkNamedInt")
	case 1:
		return mkGX[mkNamedStr]("mkNamedStr")
	case 2:
		return mkGX[mkPair]("mkPair")
	case 3:
		return mkGX[mkRec]("mkRec")
	case 4:
		return mkGX[*mkTree]("*mkTree")
	case 5:
		return mkGX[[3]uint8]("[3]uint8")
	case 6:
		return mkGX[map[bool]mkNamedInt]("map[bool]mkNamedInt")
	case 7:
		return mkGX[[]*mkPair]("[]*mkPair")
	case 8:
		return mkGX[map[mkPair][]float64]("map[mkPair][]float64")
	default:
		return mkGX[[0]int]("[0]int")
	}
}

// ---------------------------------------------------------------------------
// combinators

func canonKey(v any) string { return canon(v) }

func gxLeaf(r *rng, o gxOpts) *GX {
	if o.small {
		switch r.intn(6) {
		case 0:
			return gxRune(r, o)
		case 1:
			return gxSampled(r, o)
		case 2:
			return gxString(r, o)
		default:
			return gxInt(r, o)
		}
	}
	switch r.intn(16) {
	case 0, 1, 2, 3, 4:
		return gxInt(r, o)
	case 5, 6, 7:
		return gxFloat(r, o)
	case 8:
		return gxRune(r, o)
	case 9, 10:
		return gxString(r, o)
	case 11:
		return gxRegexp(r, "")
	case 12, 13:
		return gxSampled(r, o)
	default:
		return gxMake(r)
	}
}

func gxCmpLeaf(r *rng, o gxOpts) *GX {
	for {
		g := gxLeaf(r, o)
		if g.Cmp {
			return g
		}
	}
}

// buildGX builds a random expression of nesting depth <= o.depth.
func buildGX(r *rng, o gxOpts) *GX {
	if o.depth <= 0 || r.chance(1, 4) {
		return gxLeaf(r, o)
	}
	sub := o
	sub.depth--
	switch k := r.intn(15); k {
	case 0, 1: // SliceOf / SliceOfN
		e := buildGX(r, sub)
		mn, mx := lenBounds(r, o)
		var g *rapid.Generator[[]any]
		var desc string
		if mn < 0 && mx < 0 {
			g, desc = rapid.SliceOf(e.Gen), fmt.Sprintf("SliceOf(%s)", e.Desc)
		} else {
			g, desc = rapid.SliceOfN(e.Gen, mn, mx), fmt.Sprintf("SliceOfN(%s, %d, %d)", e.Desc, mn, mx)
		}
		return &GX{Desc: desc, Gen: g.AsAny(), Rej: e.Rej, post: e.post, Check: func(v any) string {
			s, ok := v.([]any)
			if !ok {
				return fmt.Sprintf("%s returned %T", desc, v)
			}
			if c := checkLen(desc, len(s), mn, mx); c != "" {
				return c
			}
			for _, x := range s {
				if c := e.Check(x); c != "" {
					return c
				}
			}
			return ""
		}}
	case 2, 3: // SliceOfDistinct / SliceOfNDistinct
		e := buildGX(r, sub)
		mn, mx := lenBounds(r, o)
		keyName, keyFn := "canon", canonKey
		if e.Int && r.chance(1, 2) {
			keyName, keyFn = "mod3", func(v any) string { n, _ := intView(v); return fmt.Sprint(((n % 3) + 3) % 3) }
		}
		var g *rapid.Generator[[]any]
		var desc string
		if mn < 0 && mx < 0 {
			g, desc = rapid.SliceOfDistinct(e.Gen, keyFn), fmt.Sprintf("SliceOfDistinct(%s, %s)", e.Desc, keyName)
		} else {
			g, desc = rapid.SliceOfNDistinct(e.Gen, mn, mx, keyFn), fmt.Sprintf("SliceOfNDistinct(%s, %d, %d, %s)", e.Desc, mn, mx, keyName)
		}
		return &GX{Desc: desc, Gen: g.AsAny(), Rej: true, post: e.post, Check: func(v any) string {
			s, ok := v.([]any)
			if !ok {
				return fmt.Sprintf("%s returned %T", desc, v)
			}
			if c := checkLen(desc, len(s), mn, mx); c != "" {
				return c
			}
			seen := map[string]bool{}
			for _, x := range s {
				if c := e.Check(x); c != "" {
					return c
				}
				k := keyFn(x)
				if seen[k] {
					return fmt.Sprintf("%s returned duplicate key %s in %s", desc, k, canon(v))
				}
				seen[k] = true
			}
			return ""
		}}
	case 4, 5: // MapOf / MapOfN
		kx := gxCmpLeaf(r, sub)
		vx := buildGX(r, sub)
		mn, mx := lenBounds(r, o)
		var g *rapid.Generator[map[any]any]
		var desc string
		if mn < 0 && mx < 0 {
			g, desc = rapid.MapOf(kx.Gen, vx.Gen), fmt.Sprintf("MapOf(%s, %s)", kx.Desc, vx.Desc)
		} else {
			g, desc = rapid.MapOfN(kx.Gen, vx.Gen, mn, mx), fmt.Sprintf("MapOfN(%s, %s, %d, %d)", kx.Desc, vx.Desc, mn, mx)
		}
		return &GX{Desc: desc, Gen: g.AsAny(), Rej: true, Check: func(v any) string {
			m, ok := v.(map[any]any)
			if !ok {
				return fmt.Sprintf("%s returned %T", desc, v)
			}
			if c := checkLen(desc, len(m), mn, mx); c != "" {
				return c
			}
			for k, x := range m {
				if c := kx.Check(k); c != "" {
					return c
				}
				if c := vx.Check(x); c != "" {
					return c
				}
			}
			return ""
		}}
	case 6: // MapOfValues / MapOfNValues
		vx := buildGX(r, sub)
		mn, mx := lenBounds(r, o)
		var g *rapid.Generator[map[string]any]
		var desc string
		if mn < 0 && mx < 0 {
			g, desc = rapid.MapOfValues(vx.Gen, canonKey), fmt.Sprintf("MapOfValues(%s, canon)", vx.Desc)
		} else {
			g, desc = rapid.MapOfNValues(vx.Gen, mn, mx, canonKey), fmt.Sprintf("MapOfNValues(%s, %d, %d, canon)", vx.Desc, mn, mx)
		}
		return &GX{Desc: desc, Gen: g.AsAny(), Rej: true, post: vx.post, Check: func(v any) string {
			m, ok := v.(map[string]any)
			if !ok {
				return fmt.Sprintf("%s returned %T", desc, v)
			}
			if c := checkLen(desc, len(m), mn, mx); c != "" {
				return c
			}
			for k, x := range m {
				if c := vx.Check(x); c != "" {
					return c
				}
				if canonKey(x) != k {
					return fmt.Sprintf("%s: key %q is not keyFn(value)=%q", desc, k, canonKey(x))
				}
			}
			return ""
		}}
	case 7: // Filter
		if r.chance(1, 3) {
			// a chain of 1-7 filters on one base, refined by TWO siblings with predicates of their own: the siblings
			// (and the base) are separate, immutable generators however the chain is represented
			base := rapid.IntRange(0, 999)
			nch := r.between(1, 7)
			for i := 0; i < nch; i++ {
				k := 2 + i
				base = base.Filter(func(v int) bool { return v%(k*7) != 1 })
			}
			chainOK := func(v int) bool {
				for i := 0; i < nch; i++ {
					if v%((2+i)*7) == 1 {
						return false
					}
				}
				return true
			}
			even := base.Filter(func(v int) bool { return v%2 == 0 })
			odd := base.Filter(func(v int) bool { return v%2 == 1 })
			desc := fmt.Sprintf("FilterSiblings(IntRange(0,999) x %d filters; .Filter(even) / .Filter(odd))", nch)
			gen := rapid.Custom(func(t *rapid.T) any {
				return [3]int{even.Draw(t, "even"), odd.Draw(t, "odd"), base.Draw(t, "base")}
			})
			return &GX{Desc: desc, Gen: gen, Rej: true, Check: func(v any) string {
				w, ok := v.([3]int)
				if !ok {
					return fmt.Sprintf("%s returned %T", desc, v)
				}
				switch {
				case w[0]%2 != 0 || !chainOK(w[0]):
					return fmt.Sprintf("%s: the even sibling returned %d", desc, w[0])
				case w[1]%2 != 1 || !chainOK(w[1]):
					return fmt.Sprintf("%s: the odd sibling returned %d", desc, w[1])
				case !chainOK(w[2]):
					return fmt.Sprintf("%s: the base returned %d", desc, w[2])
				}
				return ""
			}}
		}
		e := buildGX(r, sub)
		m := uint64(r.between(2, 6))
		keep := uint64(r.between(1, int(m)))
		salt := r.next()
		pred := func(v any) bool { return mix(hashStr(canon(v)), salt)%m < keep }
		desc := fmt.Sprintf("%s.Filter(h%%%d<%d)", e.Desc, m, keep)
		return &GX{Desc: desc, Gen: e.Gen.Filter(pred), Cmp: e.Cmp, Int: e.Int, Rej: true, post: e.post, Check: func(v any) string {
			if c := e.Check(v); c != "" {
				return c
			}
			if !pred(v) {
				return fmt.Sprintf("%s returned %s which fails the predicate", desc, canon(v))
			}
			return ""
		}}
	case 8: // Map
		e := buildGX(r, sub)
		desc := fmt.Sprintf("Map(%s, wrap)", e.Desc)
		return &GX{Desc: desc, Gen: rapid.Map(e.Gen, func(v any) any { return [2]any{"m", v} }), Rej: e.Rej, post: e.post, Check: func(v any) string {
			w, ok := v.([2]any)
			if !ok || w[0] != "m" {
				return fmt.Sprintf("%s returned %#v", desc, v)
			}
			return e.Check(w[1])
		}}
	case 9, 10: // OneOf
		n := r.between(1, 4)
		var alts []*GX
		var gens []*rapid.Generator[any]
		var ds []string
		cmp, rej := true, false
		for i := 0; i < n; i++ {
			a := buildGX(r, sub)
			alts = append(alts, a)
			gens = append(gens, a.Gen)
			ds = append(ds, a.Desc)
			cmp = cmp && a.Cmp
			rej = rej || a.Rej
		}
		desc := "OneOf(" + strings.Join(ds, ", ") + ")"
		return &GX{Desc: desc, Gen: rapid.OneOf(gens...), Cmp: cmp, Rej: rej, Check: func(v any) string {
			var first string
			for _, a := range alts {
				c := a.checkAll(v)
				if c == "" {
					return ""
				}
				if first == "" {
					first = c
				}
			}
			return fmt.Sprintf("%s returned %s which satisfies no alternative (%s)", desc, clip(canon(v), 200), first)
		}}
	case 11: // Ptr
		e := buildGX(r, sub)
		allowNil := r.chance(1, 2)
		desc := fmt.Sprintf("Ptr(%s, %v)", e.Desc, allowNil)
		return &GX{Desc: desc, Gen: rapid.Ptr(e.Gen, allowNil).AsAny(), Rej: e.Rej, post: e.post, Check: func(v any) string {
			p, ok := v.(*any)
			if !ok {
				return fmt.Sprintf("%s returned %T", desc, v)
			}
			if p == nil {
				if !allowNil {
					return desc + " returned nil"
				}
				return ""
			}
			return e.Check(*p)
		}}
	case 12: // Deferred, finite unrolling and a truly recursive (sub-critical) list
		e := buildGX(r, sub)
		if r.chance(1, 2) {
			desc := fmt.Sprintf("Deferred(%s)", e.Desc)
			return &GX{Desc: desc, Gen: rapid.Deferred(func() *rapid.Generator[any] { return e.Gen }), Cmp: e.Cmp, Int: e.Int, Rej: e.Rej, post: e.post, Check: e.Check}
		}
		if r.chance(1, 3) {
			// a recursive tree whose children are distinct by key: ONE SliceOfNDistinct generator object is re-entered
			// while it is in the middle of producing a value (each child draws its own children from it)
			var dnode *rapid.Generator[any]
			dtree := int64(r.next() >> 1)
			key := func(v any) int {
				if n, ok := v.(recNode); ok {
					return 100 + len(n.kids)
				}
				return v.(int)
			}
			dnode = rapid.OneOf(
				rapid.IntRange(0, 6).AsAny(),
				rapid.Map(rapid.SliceOfNDistinct(rapid.Deferred(func() *rapid.Generator[any] { return dnode }), 0, 4, key), func(s []any) any { return recNode{dtree, s} }),
			)
			desc := "RecTreeDistinct(IntRange(0,6))"
			var chk func(v any) string
			chk = func(v any) string {
				n, ok := v.(recNode)
				if !ok {
					if i, ok := v.(int); !ok || i < 0 || i > 6 {
						return fmt.Sprintf("%s: leaf %#v", desc, v)
					}
					return ""
				}
				if n.tree != dtree || len(n.kids) > 4 {
					return fmt.Sprintf("%s: node with %d children", desc, len(n.kids))
				}
				seen := map[int]bool{}
				for _, k := range n.kids {
					if seen[key(k)] {
						return fmt.Sprintf("%s: two children of one node have the same key %d (children %s)", desc, key(k), clip(canon(n.kids), 200))
					}
					seen[key(k)] = true
					if c := chk(k); c != "" {
						return c
					}
				}
				return ""
			}
			return &GX{Desc: desc, Gen: dnode, Rej: true, Check: chk}
		}
		var node *rapid.Generator[any]
		// nodes carry the identity of their tree: a leaf may itself be a node of ANOTHER recursive tree
		// (RecTree nested in RecTree) and must then be judged as a leaf
		treeID := int64(r.next() >> 1) // deterministic in the construction seed: equal trees have equal ids
		node = rapid.OneOf(
			e.Gen,
			rapid.Map(rapid.SliceOfN(rapid.Deferred(func() *rapid.Generator[any] { return node }), 0, 2), func(s []any) any { return recNode{treeID, s} }),
		)
		desc := fmt.Sprintf("RecTree(%s)", e.Desc)
		var chk func(v any, d int) string
		chk = func(v any, d int) string {
			if n, ok := v.(recNode); ok && n.tree == treeID {
				if len(n.kids) > 2 {
					return desc + ": node with more than 2 children"
				}
				for _, k := range n.kids {
					if c := chk(k, d+1); c != "" {
						return c
					}
				}
				return ""
			}
			return e.Check(v)
		}
		return &GX{Desc: desc, Gen: node, Rej: e.Rej, post: e.post, Check: func(v any) string { return chk(v, 0) }}
	case 13: // Custom
		if o.noCustom {
			return gxLeaf(r, o)
		}
		n := r.between(1, 3)
		var kids []*GX
		var ds []string
		for i := 0; i < n; i++ {
			k := buildGX(r, sub)
			kids = append(kids, k)
			ds = append(ds, k.Desc)
		}
		skipM := uint64(0)
		if r.chance(1, 2) {
			skipM = uint64(r.between(2, 5)) // the function skips (is retried) for 1/skipM of its draws
		}
		salt := r.next()
		desc := fmt.Sprintf("Custom[%s](skip 1/%d)", strings.Join(ds, "; "), skipM)
		gen := rapid.Custom(func(t *rapid.T) any {
			out := make([]any, 0, n)
			for i, k := range kids {
				out = append(out, k.Gen.Draw(t, fmt.Sprintf("c%d", i)))
			}
			if skipM > 0 && mix(hashStr(canon(out)), salt)%skipM == 0 {
				t.Skip("custom retry")
			}
			return customVal{out}
		})
		return &GX{Desc: desc, Gen: gen, Rej: true, Check: func(v any) string {
			cv, ok := v.(customVal)
			if !ok || len(cv.parts) != n {
				return fmt.Sprintf("%s returned %#v", desc, v)
			}
			for i, k := range kids {
				if c := k.checkAll(cv.parts[i]); c != "" {
					return c
				}
			}
			if skipM > 0 && mix(hashStr(canon(cv.parts)), salt)%skipM == 0 {
				return desc + " returned a value from an attempt that skipped"
			}
			return ""
		}}
	default:
		return gxMake(r)
	}
}

type recNode struct {
	tree int64
	kids []any
}
type customVal struct{ parts []any }

// gxRejecting returns one of the rejection-heavy expression families named in
// C01/C04 (forced stops after repeated rejections).
func gxRejecting(r *rng) *GX {
	o := gxOpts{depth: 1, small: true}
	for i := 0; i < 50; i++ {
		g := buildGX(r, gxOpts{depth: 2, small: true})
		if g.Rej {
			return g
		}
	}
	return buildGX(r, o)
}

// mkWrap[T] gives many distinct types with nested pointers: Make resolves pointer types lazily (at draw time),
// so the first use of each of them exercises whatever Make caches per type.
type mkWrap[T any] struct {
	P *T
	Q *[]T
	R **T
}

var mkFresh = []func() *GX{
	func() *GX { return mkGX[mkWrap[int8]]("mkWrap[int8]") },
	func() *GX { return mkGX[mkWrap[int16]]("mkWrap[int16]") },
	func() *GX { return mkGX[mkWrap[int32]]("mkWrap[int32]") },
	func() *GX { return mkGX[mkWrap[uint8]]("mkWrap[uint8]") },
	func() *GX { return mkGX[mkWrap[uint16]]("mkWrap[uint16]") },
	func() *GX { return mkGX[mkWrap[uint32]]("mkWrap[uint32]") },
	func() *GX { return mkGX[mkWrap[bool]]("mkWrap[bool]") },
	func() *GX { return mkGX[mkWrap[string]]("mkWrap[string]") },
	func() *GX { return mkGX[mkWrap[float32]]("mkWrap[float32]") },
	func() *GX { return mkGX[mkWrap[mkPair]]("mkWrap[mkPair]") },
	func() *GX { return mkGX[mkWrap[mkNamedInt]]("mkWrap[mkNamedInt]") },
	func() *GX { return mkGX[mkWrap[mkWrap[int8]]]("mkWrap[mkWrap[int8]]") },
	func() *GX { return mkGX[mkWrap[mkWrap[bool]]]("mkWrap[mkWrap[bool]]") },
	func() *GX { return mkGX[mkWrap[[2]uint8]]("mkWrap[[2]uint8]") },
	func() *GX { return mkGX[mkWrap[map[int8]bool]]("mkWrap[map[int8]bool]") },
	func() *GX { return mkGX[mkWrap[*mkPair]]("mkWrap[*mkPair]") },
	func() *GX { return mkGX[*mkWrap[uint64]]("*mkWrap[uint64]") },
	func() *GX { return mkGX[[]mkWrap[int64]]("[]mkWrap[int64]") },
	func() *GX { return mkGX[map[uint8]mkWrap[uint]]("map[uint8]mkWrap[uint]") },
	func() *GX { return mkGX[mkWrap[mkWrap[mkWrap[uint8]]]]("mkWrap[mkWrap[mkWrap[uint8]]]") },
}

// deepChain wraps leaf in `levels` combinators (slice, map, pointer, OneOf, Custom, Deferred, Filter, Map - chosen by r),
// so that a draw that gives up inside the leaf unwinds through every kind of generator frame.
func deepChain(r *rng, leaf *rapid.Generator[any], levels int) (*rapid.Generator[any], string) {
	g, desc := leaf, "leaf"
	for i := 0; i < levels; i++ {
		inner := g
		switch k := (int(r.next()%7) + i) % 7; k {
		case 0:
			g, desc = rapid.SliceOfN(inner, 1, 1).AsAny(), "Slice1("+desc+")"
		case 1:
			g, desc = rapid.Map(inner, func(v any) any { return v }), "Map("+desc+")"
		case 2:
			if i%2 == 0 {
				g, desc = rapid.Ptr(inner, false).AsAny(), "Ptr("+desc+")"
			} else {
				g, desc = rapid.Ptr(inner, true).AsAny(), "PtrOrNil("+desc+")"
			}
		case 3:
			g, desc = rapid.OneOf(inner), "OneOf("+desc+")"
		case 4:
			g, desc = rapid.Custom(func(t *rapid.T) any { return inner.Draw(t, "c") }), "Custom("+desc+")"
		case 5:
			g, desc = rapid.Deferred(func() *rapid.Generator[any] { return inner }), "Deferred("+desc+")"
		default:
			g, desc = inner.Filter(func(any) bool { return true }), "Filter("+desc+")"
		}
	}
	return g, desc
}
