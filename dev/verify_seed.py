#!/usr/bin/env python3
"""Independently confirm a seeded defect: suite passes with patch; demo passes without and fails with it.
usage: verify_seed.py C01a [C01b ...]   (reads /tmp/seedout/<prop>/<id>/) ; writes /verif/seeded/<id>/ when confirmed"""
import json, os, re, shutil, subprocess, sys
ENV = dict(os.environ, GOFLAGS="-mod=mod", GOPROXY="off", GOSUMDB="off", GOTOOLCHAIN="local")
def sh(cmd, cwd, timeout=900):
    p = subprocess.run(cmd, cwd=cwd, env=ENV, shell=True, capture_output=True, text=True, timeout=timeout)
    return p.returncode, (p.stdout + p.stderr)
def main():
    for sid in sys.argv[1:]:
        prop = sid[:3]
        src = "%s/%s/%s" % (os.environ.get("SEEDOUT", "/tmp/seedout"), prop, sid)
        meta = json.load(open(src + "/meta.json"))
        m = re.search(r"-run[ =]+('([^']*)'|\"([^\"]*)\"|(\S+))", meta.get("demo_cmd", ""))
        pat = (m.group(2) or m.group(3) or m.group(4)) if m else "Test"
        wt = "/tmp/vseed/" + sid
        shutil.rmtree(wt, ignore_errors=True)
        os.makedirs("/tmp/vseed", exist_ok=True)
        subprocess.run(["git", "-C", "/repo", "worktree", "remove", "--force", wt], capture_output=True)
        subprocess.run(["git", "-C", "/repo", "worktree", "add", "-q", "--detach", wt, "HEAD"], check=True)
        res = {"id": sid, "pattern": pat}
        try:
            shutil.copy(src + "/demo_test.go", wt + "/zz_seed_demo_test.go")
            extra = "-race " if ("-race" in meta.get("demo_cmd", "")) else ""
            demo = "go test %s-vet=off -count=1 -run '%s' ." % (extra, pat)
            rc0, out0 = sh(demo, wt)
            res["demo_without_patch"] = "pass" if rc0 == 0 else "FAIL"
            rc, out = sh("git apply %s/patch.diff" % src, wt)
            if rc != 0:
                res["apply"] = out[-300:]
            os.rename(wt + "/zz_seed_demo_test.go", wt + "/zz_seed_demo_test.go.off")
            suite = []
            for i in range(3):
                rcs, outs = sh("go test -vet=off -count=1 ./...", wt)
                suite.append(rcs)
            res["suite_with_patch"] = "pass" if all(x == 0 for x in suite) else "FAIL %s" % suite
            os.rename(wt + "/zz_seed_demo_test.go.off", wt + "/zz_seed_demo_test.go")
            rc1, out1 = sh(demo, wt)
            if rc1 == 0:  # flaky demos get a few more attempts
                for i in range(3):
                    rc1, out1 = sh(demo, wt)
                    if rc1 != 0: break
            res["demo_with_patch"] = "fail" if rc1 != 0 else "PASS(not demonstrated)"
            res["demo_tail"] = out1[-600:]
            ok = res["demo_without_patch"] == "pass" and res["suite_with_patch"] == "pass" and res["demo_with_patch"] == "fail" and "apply" not in res
            res["confirmed"] = ok
            if ok:
                dst = "/verif/seeded/" + sid
                os.makedirs(dst, exist_ok=True)
                shutil.copy(src + "/patch.diff", dst + "/patch.diff")
                shutil.copy(src + "/demo_test.go", dst + "/demo_test.go.txt")
                json.dump({"id": sid, "property": prop, "summary": meta.get("summary"), "why_breaks": meta.get("why_breaks"),
                           "needs_to_manifest": meta.get("needs_to_manifest"),
                           "confirmed_by": "dev/verify_seed.py in a scratch worktree of /repo HEAD: demo `%s` passed without the patch; with the patch applied the unedited suite passed 3x and the demo failed" % demo,
                           "demo_output_with_patch_tail": out1[-400:]}, open(dst + "/meta.json", "w"), indent=1)
        finally:
            subprocess.run(["git", "-C", "/repo", "worktree", "remove", "--force", wt], capture_output=True)
            shutil.rmtree(wt, ignore_errors=True)
        print(json.dumps({k: v for k, v in res.items() if k != "demo_tail"}))
main()
