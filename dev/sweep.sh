#!/bin/bash
# usage: dev/sweep.sh <tier> <seed>...   runs every registered check and prints one line per run
tier=$1; shift
for seed in "$@"; do
  for p in C01 C02 C03 C04 C05 C06 C07 C08 C09 C10 C11 C12 C13 C14 C15 C16 C17 C18; do
    out=$(VERIF_SEED=$seed ./check $p $tier 2>&1); rc=$?
    echo "seed=$seed $p exit=$rc | $(echo "$out" | head -1)"
    if [ $rc != 0 ]; then echo "$out" | grep -E "what:|BROKEN" | sort | uniq -c | head -5; fi
  done
done
