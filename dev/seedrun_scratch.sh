#!/bin/bash
# like seedrun.sh, but on a scratch copy of /repo's HEAD (VERIF_REPO): /repo itself is not touched,
# evidence is not written.  usage: dev/seedrun_scratch.sh <seedid> <prop> [<prop>...]
id=$1; shift
S=/tmp/seedrepo-$id
rm -rf $S; mkdir -p $S; git -C /repo archive HEAD | tar -x -C $S
( cd $S && patch -p1 -s < /verif/seeded/$id/patch.diff ) || { echo "$id: patch does not apply"; rm -rf $S; exit 1; }
cd /verif
for p in "$@"; do
  out=$(VERIF_REPO=$S ./check $p ${TIER:-quick} 2>&1); rc=$?
  nv=$(echo "$out" | grep -c '^VIOLATION')
  w=$(echo "$out" | grep -m1 'what:' | cut -c1-220)
  echo "$id $p exit=$rc violation_lines=$nv $(echo "$out" | head -1 | sed 's/.*evaluations, //') | $w"
  [ $rc = 2 ] && echo "$out" | grep BROKEN | head -3
done
rm -rf $S
