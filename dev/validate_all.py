#!/usr/bin/env python3
# validates MANIFEST.json and every evidence/<id>.json against the schemas in /root/.vp (run with python3-vt: needs jsonschema)
import json, sys, glob, jsonschema
bad = 0
m = json.load(open('MANIFEST.json'))
jsonschema.validate(m, json.load(open('/root/.vp/MANIFEST.schema.json')))
es = json.load(open('/root/.vp/EVIDENCE.schema.json'))
ids = set()
for f in sorted(glob.glob('evidence/C*.json')):
    e = json.load(open(f))
    try:
        jsonschema.validate(e, es)
    except jsonschema.ValidationError as x:
        print('INVALID', f, x.message[:200]); bad += 1
        continue
    ids.add(e['property_id'])
    cov = e.get('coverage', {})
    print(f, e.get('tier'), 'seed', e.get('seed'), 'evaluations', cov.get('evaluations'), 'violations', e.get('violations'))
props = [json.loads(l)['id'] for l in open('properties.jsonl')]
claimed = [c['property_id'] if 'property_id' in c else c.get('id') for c in m.get('checks', m.get('properties', []))]
print('properties', len(props), 'evidence files', len(ids), 'missing evidence', sorted(set(props) - ids))
sys.exit(1 if bad else 0)
