import json,sys
r=json.load(open(sys.argv[1]))
c=r['counters']
print({k:c[k] for k in sorted(c)})
print('violations',r['n_violations'],'distinct',len(r['distinct'] or []),'inconcl',r['n_inconclusive'],'wall',round(r['wall_s'],1))
seen=set()
for v in r['violations'] or []:
    if v['fingerprint'] in seen: continue
    seen.add(v['fingerprint'])
    d=v.get('detail') or {}
    print('---',v['what'][:500]); print('   prog:',str(d.get('program',''))[:500]); print('   cfg:',d.get('config'), json.dumps(v['scenario']))
    for k in d:
        if k not in ('program','config','flags','tb'): print('   ',k,':',str(d[k])[:600])
for s in (r.get('inconclusive') or [])[:5]: print('inconclusive:',s[:300])
for s in (r.get('notes') or [])[:10]: print('note:',s[:300])
