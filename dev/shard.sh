#!/bin/bash
# dev helper: build harness and run one shard of a property, print summary
# usage: dev/shard.sh C01 [shard] [nshards] [tier] [extra binary args...]
export GOFLAGS=-mod=mod GOPROXY=off GOSUMDB=off GOTOOLCHAIN=local
P=$1; S=${2:-3}; N=${3:-16}; T=${4:-quick}; shift 4
D=$(mktemp -d /tmp/verif-dev-XXXXXX)
cd /verif/harness && go vet -tags verif . || exit 1
RACE=""
if [ "$P" = C14 ] || [ "$P" = C15 ]; then RACE="-race"; export GORACE="halt_on_error=0 log_path=$D/race"; fi
go test -c $RACE -tags verif -o $D/h.test . || exit 1
cd $D
/usr/bin/time -f "%es %MKB" timeout -s QUIT ${LIMIT:-600} ./h.test -test.run '^TestVerif$' -test.timeout 0 -verif.prop=$P -verif.tier=$T -verif.nshards=$N -verif.shard=$S -verif.seed=${VERIF_SEED:-1} -verif.out=$D/r.json -verif.scratch=$D "$@" > $D/log.txt 2>&1
tail -4 $D/log.txt
python3 /verif/dev/summ.py $D/r.json
ls $D/race.* 2>/dev/null | head -3
[ -n "$KEEP" ] && echo kept $D || rm -rf $D
