#!/bin/bash
# dev helper: apply a patch (or revert a fix commit with -R <commit>) to /repo, run checks, undo.
# usage: dev/mut.sh <patch.diff | -R commit> C01 C05 ...
cd /repo || exit 1
if [ -n "$(git status --porcelain --untracked-files=no)" ]; then echo "repo dirty"; exit 1; fi
if [ "$1" = "-R" ]; then git show "$2" | git apply -R || exit 1; shift 2; else git apply "$1" || exit 1; shift; fi
trap 'git -C /repo checkout -- . ; echo "[repo restored]"' EXIT
cd /verif
for p in "$@"; do
  VERIF_SCALE=${VERIF_SCALE:-1} ./check $p ${TIER:-quick} 2>&1 | grep -v "^   (" | cut -c1-330 | head -${LINES_MAX:-14}
  echo "exit=${PIPESTATUS[0]}"
done
