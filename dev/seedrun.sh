#!/bin/bash
# usage: dev/seedrun.sh <seedid> <prop> [<prop>...]   -> one summary line per check
id=$1; shift
cd /repo && git apply /verif/seeded/$id/patch.diff || { echo "$id: patch does not apply"; exit 1; }
trap 'git -C /repo checkout -- .' EXIT
cd /verif
for p in "$@"; do
  out=$(./check $p ${TIER:-quick} 2>&1); rc=$?
  nv=$(echo "$out" | grep -c '^VIOLATION')
  w=$(echo "$out" | grep -m1 'what:' | cut -c1-220)
  echo "$id $p exit=$rc violation_lines=$nv $(echo "$out" | head -1 | sed 's/.*evaluations, //') | $w"
  [ $rc = 2 ] && echo "$out" | grep BROKEN | head -3
done
