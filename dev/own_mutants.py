#!/usr/bin/env python3
"""Second break-it wave: the 'must catch' mutations of DESIGN §5, applied to a scratch copy of /repo
(VERIF_REPO override, /repo itself is not touched).  usage: own_mutants.py [name-prefix ...]
Writes /verif/seeded/own-mutants.json (results) – a developer aid, not a registered check."""
import json, os, shutil, subprocess, sys, time

ENV = dict(os.environ, GOFLAGS="-mod=mod", GOPROXY="off", GOSUMDB="off", GOTOOLCHAIN="local")
SCRATCH = "/tmp/mutrepo"

M = [
 # id, file, old, new, checks
 ("c01-accept-no-second-compare", "shrink.go", "\tif !sameError(err1, err2) {\n\t\tpanic(err2)\n\t}\n", "\t_ = err2\n", ["C01", "C05"]),
 ("c01-docheck-no-repro-compare", "engine.go", "\tif !sameError(err1, err2) {\n\t\treturn valid, invalid, false, seed, \"\", s.data, err1, err2\n\t}\n", "", ["C01", "C07"]),
 ("c01-removegroup-offset", "data.go", "\t\tif rec.groups[j].begin >= g.end {\n\t\t\trec.groups[j].begin -= n\n\t\t}", "\t\tif rec.groups[j].begin > g.end {\n\t\t\trec.groups[j].begin -= n\n\t\t}", ["C01", "C04", "C05"]),
 ("c01-accept-unpruned", "shrink.go", "\ts.rec = s2.recordedBits\n\ts.rec.prune()\n\tassert(compareData(s.rec.data, buf) <= 0)\n", "\ts.rec = s2.recordedBits\n", ["C01", "C05"]),
 ("c02-checkonce-no-failonerror", "engine.go", "\tprop(t)\n\tt.failOnError()\n\n\treturn nil", "\tprop(t)\n\n\treturn nil", ["C02"]),
 ("c02-runaction-no-failonerror", "statemachine.go", "\taction(t)\n\tt.failOnError()\n", "\taction(t)\n", ["C02", "C08"]),
 ("c02-custom-swallows-all", "combinators.go", "\t\t\tif _, ok := r.(invalidData); !ok {\n\t\t\t\tpanic(r)\n\t\t\t}", "\t\t\t_ = r", ["C02"]),
 ("c03-nnoreject-no-clamp", "utils.go", "\tif u > max {\n\t\tu = max\n\t}\n\treturn u", "\treturn u", ["C03"]),
 ("c03-float-guard", "floats.go", "\t\tif sf&mask < sfMin {\n\t\t\tbreak\n\t\t}\n", "", ["C03"]),
 ("c03-repeat-ignores-max", "utils.go", "\t} else if r.forceStop || r.count >= r.maxCount {", "\t} else if r.forceStop {", ["C03"]),
 ("c03-string-overlong", "strings.go", "\t\tif n < 0 || b.Len()+n > maxLen {", "\t\tif n < 0 || b.Len()+1 > maxLen {", ["C03"]),
 ("c03-slice-seen", "collections.go", "\t\t\tif _, ok := seen[k]; ok {\n\t\t\t\trepeat.reject()\n\t\t\t} else {\n\t\t\t\tseen[k] = struct{}{}\n\t\t\t\tsl = append(sl, e)\n\t\t\t}", "\t\t\tseen[k] = struct{}{}\n\t\t\tsl = append(sl, e)", ["C03"]),
 ("c03-unbiased-accept-plus1", "utils.go", "\t\tu := s.drawBits(bitlen)\n\t\tok := u <= max\n", "\t\tu := s.drawBits(bitlen)\n\t\tok := u <= max+1 && max+1 != 0\n", ["C03"]),
 ("c03-intrange-sign", "utils.go", "\t\treturn -int64(u), rOverflow, lOverflow && max <= 0", "\t\treturn -int64(u) + 1, rOverflow, lOverflow && max <= 0", ["C03"]),
 ("c04-buf-no-mask", "data.go", "\tu := s.buf[0] & bitmask64(uint(n))\n", "\tu := s.buf[0]\n", ["C04", "C13", "C03"]),
 ("c04-example-ignores-seed", "generator.go", "\tif len(seed) > 0 {\n\t\ts = uint64(seed[0])\n\t}", "\tif len(seed) > 1 {\n\t\ts = uint64(seed[0])\n\t}", ["C04"]),
 ("c05-no-traceback-compare", "shrink.go", "\tif traceback(err1) != traceback(s.err) {", "\tif err1 == nil || err1.isInvalidData() {", ["C05"]),
 ("c05-compare-gt", "shrink.go", "\tif compareData(buf, s.rec.data) >= 0 {\n\t\treturn false\n\t}", "\tif compareData(buf, s.rec.data) > 0 {\n\t\treturn false\n\t}", ["C05"]),
 ("c06-no-comment-prefix", "persist.go", "\t\t_, err := f.WriteString(\"# \" + s + \"\\n\")", "\t\t_, err := f.WriteString(s + \"\\n\")", ["C06"]),
 ("c06-pattern-mismatch", "persist.go", "\tfileName := fmt.Sprintf(\"%s-*.fail\", kindaSafeFilename(testName))", "\tfileName := fmt.Sprintf(\"%s-*.fail\", testName)", ["C06"]),
 ("c07-seed-after-increment", "engine.go", "\t\t\treturn valid, invalid, false, seed, err\n", "\t\t\treturn valid, invalid, false, seed + uint64(iter), err\n", ["C07", "C01"]),
 ("c07-init-before-increment", "engine.go", "\t\tseed += uint64(iter)\n\t\tr.init(seed)\n", "\t\tr.init(seed)\n\t\tseed += uint64(iter)\n", ["C07"]),
 ("c08-no-initial-check", "statemachine.go", "\tsm.check(t)\n\tt.failOnError()\n\tfor repeat.more(t.s) {", "\tfor repeat.more(t.s) {", ["C08"]),
 ("c08-check-after-skip", "statemachine.go", "\t\t} else {\n\t\t\trepeat.reject()\n\t\t}", "\t\t} else {\n\t\t\tsm.check(t)\n\t\t\trepeat.reject()\n\t\t}", ["C08"]),
 ("c08-check-as-action", "statemachine.go", "\t\tif name == checkMethodName {\n\t\t\tcontinue\n\t\t}\n", "", ["C08"]),
 ("c08-no-retry-bound", "statemachine.go", "\tfor n := 0; n < validActionTries; n++ {", "\tfor n := 0; n < validActionTries*1000000; n++ {", ["C08"]),
 ("c09-valid-le-checks", "engine.go", "\tfor valid < checks && invalid < checks*invalidChecksMult {", "\tfor valid <= checks && invalid < checks*invalidChecksMult {", ["C09"]),
 ("c09-budget-1", "engine.go", "\tinvalidChecksMult = 10", "\tinvalidChecksMult = 1", ["C09"]),
 ("c09-pass-when-zero", "engine.go", "\t\tif valid == checks || (earlyExit && valid > 0) {", "\t\tif valid == checks || valid == 0 || (earlyExit && valid > 0) {", ["C09"]),
 ("c10-cleanup-before-cancel", "engine.go", "\t// Context must be closed before t.Cleanup functions are run.\n\tt.mu.Lock()\n\tif t.cancelCtx != nil {\n\t\tt.cancelCtx()\n\t\tt.cancelCtx = nil\n\t\tt.ctx = nil\n\t}\n\tt.mu.Unlock()\n", "", ["C10", "C14"]),
 ("c10-fifo", "engine.go", "\t\t\tlast := len(t.cleanups) - 1\n\t\t\tcleanup = t.cleanups[last]\n\t\t\tt.cleanups = t.cleanups[:last]", "\t\t\tcleanup = t.cleanups[0]\n\t\t\tt.cleanups = t.cleanups[1:]", ["C10"]),
 ("c10-no-reentry", "engine.go", "\t\tif recurse {\n\t\t\tt.cleanup()\n\t\t}", "\t\t_ = recurse", ["C10"]),
 ("c10-custom-no-cleanup", "combinators.go", "\tdefer t.failOnError() // non-fatal failures signalled on the inner T should not be lost\n\tdefer t.cleanup()\n", "\tdefer t.failOnError() // non-fatal failures signalled on the inner T should not be lost\n", ["C10"]),
 ("c10-example-no-cleanup", "generator.go", "func example[V any](g *Generator[V], t *T) (V, int, error) {\n\tdefer t.cleanup()\n", "func example[V any](g *Generator[V], t *T) (V, int, error) {\n", ["C10"]),
 ("c13-big-endian", "engine.go", "\t\tbuf = append(buf, binary.LittleEndian.Uint64(tmp[:]))", "\t\tbuf = append(buf, binary.BigEndian.Uint64(tmp[:]))", ["C13"]),
 ("c13-drop-tail", "engine.go", "\tfor len(input) > 0 {\n\t\tvar tmp [8]byte", "\tfor len(input) >= 8 {\n\t\tvar tmp [8]byte", ["C13"]),
 ("c13-swap-skip-fatal", "engine.go", "\tcase err.isInvalidData():\n\t\ttb.SkipNow()\n\tcase err.isStopTest():\n\t\ttb.Fatalf(\"[rapid] failed: %v\", err)", "\tcase err.isStopTest():\n\t\ttb.SkipNow()\n\tcase err.isInvalidData():\n\t\ttb.Fatalf(\"[rapid] failed: %v\", err)", ["C13"]),
 ("c14-fail-no-lock", "engine.go", "func (t *T) fail(now bool, msg string) {\n\tt.mu.Lock()\n\tdefer t.mu.Unlock()\n", "func (t *T) fail(now bool, msg string) {\n", ["C14"]),
 ("c14-failed-no-lock", "engine.go", "func (t *T) Failed() bool {\n\tt.mu.RLock()\n\tdefer t.mu.RUnlock()\n", "func (t *T) Failed() bool {\n", ["C14"]),
 ("c14-cleanup-reg-no-lock", "engine.go", "func (t *T) Cleanup(f func()) {\n\tt.mu.Lock()\n\tdefer t.mu.Unlock()\n", "func (t *T) Cleanup(f func()) {\n", ["C14"]),
 ("c14-context-fastpath-no-lock", "engine.go", "\tt.mu.RLock()\n\tctx := t.ctx\n\tt.mu.RUnlock()\n\tif ctx != nil {", "\tctx := t.ctx\n\tif ctx != nil {", ["C14"]),
 ("c15-no-stronce", "generator.go", "\tg.strOnce.Do(func() {\n\t\tg.str = g.impl.String()\n\t})\n", "\tif g.str == \"\" {\n\t\tg.str = g.impl.String()\n\t}\n", ["C15"]),
 ("c16-write-final-directly", "persist.go", "\tf, err := os.CreateTemp(dir, failfileTmpPattern)", "\tf, err := os.Create(filename)", ["C16"]),
 ("c16-rename-before-data", "persist.go", "\tbs := []string{fmt.Sprintf(\"%v#%v\", version, seed)}", "\t_ = os.Rename(f.Name(), filename)\n\tbs := []string{fmt.Sprintf(\"%v#%v\", version, seed)}", ["C16"]),
 ("c17-load-error-fails", "engine.go", "\t\ttb.Logf(\"[rapid] ignoring fail file: %v\", err)\n\t\treturn nil, nil, nil", "\t\ttb.Errorf(\"[rapid] ignoring fail file: %v\", err)\n\t\treturn nil, nil, nil", ["C17"]),
 ("c17-no-version-check", "engine.go", "\tif version != rapidVersion {", "\tif false && version != rapidVersion {", ["C17"]),
 ("c17-seed-from-file", "engine.go", "\tversion, _, buf, err := loadFailFile(failfile)", "\tversion, fseed, buf, err := loadFailFile(failfile)\n\tif fseed != 0 {\n\t\tflags.seed = fseed\n\t}", ["C17"]),
 ("c18-no-overflow-path", "utils.go", "\t} else if int(n) > bitlen && int(n) >= 64-(16-int(m))*4 {\n\t\tbitlen = 65\n\t}", "\t}", ["C18"]),
 ("c18-const-baseseed", "data.go", "\treturn new(maphash.Hash).Sum64()", "\t_ = new(maphash.Hash)\n\treturn 0x5eed", ["C18"]),
 ("c18-seed-plus-zero", "engine.go", "\t\tseed += uint64(iter)\n", "\t\tseed += uint64(iter) * 0\n", ["C18", "C09"]),
 ("c12-binsearch-off-by-one", "shrink.go", "\t\t\ti = h + 1\n", "\t\t\ti = h + 2\n", ["C12"]),
 ("c12-no-removegroups", "shrink.go", "\t\ts.removeGroups(deadline)\n\t\ts.minimizeBlocks(deadline)", "\t\ts.minimizeBlocks(deadline)", ["C12"]),
]


def sh(cmd, cwd=None, timeout=3000, env=None):
    try:
        p = subprocess.run(cmd, cwd=cwd, env=env or ENV, shell=True, capture_output=True, text=True, timeout=timeout)
    except subprocess.TimeoutExpired:
        subprocess.run("pkill -f rapid.test", shell=True)
        return 124, "TIMEOUT"
    return p.returncode, p.stdout + p.stderr


def main():
    pref = sys.argv[1:]
    results = {}
    outp = "/verif/seeded/own-mutants.json"
    if os.path.exists(outp):
        results = json.load(open(outp))
    for (mid, f, old, new, checks) in M:
        if pref and not any(mid.startswith(p) for p in pref):
            continue
        if not pref and mid in results and "error" not in results[mid]:
            continue
        shutil.rmtree(SCRATCH, ignore_errors=True)
        os.makedirs(SCRATCH)
        subprocess.run("git -C /repo archive HEAD | tar -x -C %s" % SCRATCH, shell=True, check=True)
        src = open(os.path.join(SCRATCH, f)).read()
        if src.count(old) != 1:
            print(mid, "PATTERN NOT FOUND (count %d)" % src.count(old))
            results[mid] = {"error": "pattern count %d" % src.count(old)}
            continue
        open(os.path.join(SCRATCH, f), "w").write(src.replace(old, new))
        rc, out = sh("go build ./... && go vet -tags verif . >/dev/null 2>&1; go build ./...", cwd=SCRATCH)
        if rc != 0:
            print(mid, "DOES NOT COMPILE", out[-300:])
            results[mid] = {"error": "does not compile"}
            continue
        rc, out = sh("go test -vet=off -count=1 ./... 2>&1 | tail -3", cwd=SCRATCH, timeout=120)
        suite = "pass" if ("ok " in out and "FAIL" not in out) else ("TIMEOUT" if out == "TIMEOUT" else "FAIL")
        res = {"file": f, "suite": suite, "checks": {}}
        for c in checks:
            t0 = time.time()
            rc, out = sh("./check %s quick" % c, cwd="/verif", env=dict(ENV, VERIF_REPO=SCRATCH), timeout=3000)
            first = out.strip().split("\n")[0] if out.strip() else ""
            what = [l.strip() for l in out.split("\n") if "what:" in l][:1]
            res["checks"][c] = {"exit": rc, "summary": first[-90:], "what": (what[0][:200] if what else "")}
            print("%-34s suite=%s %s exit=%d %s | %s" % (mid, suite, c, rc, first[-70:], (what[0][:110] if what else "")))
            sys.stdout.flush()
        results[mid] = res
        json.dump(results, open(outp, "w"), indent=1)
    shutil.rmtree(SCRATCH, ignore_errors=True)


main()
