#!/usr/bin/env python3
"""For every kept seed: does its patch still apply to /repo HEAD and does its demo still pass without / fail with it?
Writes the answer into seeded/<id>/meta.json (field final_tree).  usage: dev/recheck_seeds.py [ids...]"""
import json, os, re, shutil, subprocess, sys
ENV = dict(os.environ, GOFLAGS="-mod=mod", GOPROXY="off", GOSUMDB="off", GOTOOLCHAIN="local")
def sh(cmd, cwd, timeout=900):
    p = subprocess.run(cmd, cwd=cwd, env=ENV, shell=True, capture_output=True, text=True, timeout=timeout)
    return p.returncode, (p.stdout + p.stderr)
head = subprocess.run("git -C /repo rev-parse --short HEAD", shell=True, capture_output=True, text=True).stdout.strip()
skip_until = os.environ.get("FROM", "")
ids = sys.argv[1:] or sorted(d for d in os.listdir("/verif/seeded") if re.fullmatch(r"C\d\d[a-z]", d))
for sid in ids:
    if skip_until and sid < skip_until:
        continue
    src = "/verif/seeded/" + sid
    mp = src + "/meta.json"
    meta = json.load(open(mp))
    if str(meta.get("status_on_final_tree", "")).startswith("obsolete"):
        print(sid, "obsolete (recorded)")
        continue
    m = re.search(r"`(go test [^`]*)`", meta.get("confirmed_by", ""))
    demo = m.group(1) if m else None
    if not demo:
        print(sid, "no demo command recorded")
        continue
    wt = "/tmp/rseed/" + sid
    shutil.rmtree(wt, ignore_errors=True)
    os.makedirs(wt)
    subprocess.run("git -C /repo archive HEAD | tar -x -C " + wt, shell=True, check=True)
    res = "?"
    try:
        shutil.copy(src + "/demo_test.go.txt", wt + "/zz_seed_demo_test.go")
        rc0, _ = sh(demo, wt)
        rca, outa = sh("patch -p1 -s < %s/patch.diff" % src, wt)
        if rca != 0:
            res = "patch does not apply to %s" % head
        else:
            rc1, out1 = sh(demo, wt)
            for i in range(3):
                if rc1 != 0:
                    break
                rc1, out1 = sh(demo, wt)
            if rc0 != 0:
                res = "demo FAILS WITHOUT the patch on %s" % head
            elif rc1 == 0:
                res = "demo passes with the patch on %s (neutralised)" % head
            else:
                res = "confirmed on %s: demo passes without the patch and fails with it" % head
    finally:
        shutil.rmtree(wt, ignore_errors=True)
    meta["final_tree"] = res
    json.dump(meta, open(mp, "w"), indent=1)
    print(sid, res)
