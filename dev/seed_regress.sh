#!/bin/bash
# regression over all kept seeds: every seed must still be reported by its property's quick check (or the sibling
# check recorded for it) on a scratch copy of /repo's HEAD with the seed applied.  usage: dev/seed_regress.sh [ids...]
cd /verif
declare -A SIB=( [C07h]=C15 [C10h]=C14 [C10f]=C14 [C11f]=C01 [C12f]=C01 [C08e]=C02 [C09e]=C11 [C01h]=C03 [C11b]=C02 [C14g]=C14 [C01b]=C17 [C02f]=C09 [C07c]=C04 [C07e]=C03 [C15d]=C04 [C06r]=C09 [C11r]=C08 [C12q]=C01 [C15r]=C03 [C18q]=C03 [C07q]=C17 [C01s]=C17 [C07k]=C04 [C02l]=C09 [C06v]=C09 [C13u]=C15 [C11u]=C15 [C02u]=C13 [C04u]=C01 [C01u]=C03 [C04h]=C03 [C15o]=C04 [C09u]=C09 [C14w]=C10 )
ids="$@"; [ -z "$ids" ] && ids=$(ls seeded | grep -E '^C[0-9]{2}[a-z]$')
for id in $ids; do
  p=${id:0:3}
  if grep -q '"status_on_final_tree": "obsolete' seeded/$id/meta.json 2>/dev/null; then echo "$id obsolete-on-final-tree"; continue; fi
  out=$(dev/seedrun_scratch.sh $id $p 2>&1 | tail -1)
  if echo "$out" | grep -q "exit=1"; then echo "CAUGHT $out" | cut -c1-200; continue; fi
  s=${SIB[$id]}
  if [ -n "$s" ]; then
    out2=$(dev/seedrun_scratch.sh $id $s 2>&1 | tail -1)
    if echo "$out2" | grep -q "exit=1"; then echo "CAUGHT-BY-SIBLING $out2" | cut -c1-200; continue; fi
  fi
  echo "MISSED $out" | cut -c1-200
done
