#!/bin/bash
# usage: dev/regress_siblings.sh <regress output> <candidates.json>: for every MISSED line, tries the sibling checks that
# DESIGN.md names for that seed (scratch copies, as dev/seed_regress.sh)
cd "$(dirname "$0")/.."
grep '^MISSED' "$1" | awk '{print $2}' | while read id; do
  sibs=$(python3 -c "import json,sys; print(' '.join(json.load(open('$2')).get('$id',[])))")
  hit=""
  for s in $sibs; do
    out=$(dev/seedrun_scratch.sh $id $s 2>&1 | tail -1)
    if echo "$out" | grep -q "exit=1"; then echo "CAUGHT-BY-SIBLING $out" | cut -c1-200; hit=1; break; fi
  done
  [ -z "$hit" ] && echo "STILL-MISSED $id (tried own check and: $sibs)"
done
