#!/usr/bin/env python3
"""Re-express seeded changes whose patch no longer applies after the F15 repair (cleanup()/maybeValue/checkOnce
were restructured) on /repo's HEAD.  Each port makes the *same mistake* at the same place of the new code.
Output: /tmp/seedport/<prop>/<id>/{patch.diff,demo_test.go,meta.json}; confirm with
  SEEDOUT=/tmp/seedport dev/verify_seed.py <ids>   (which rewrites /verif/seeded/<id>/)."""
import json, os, re, shutil, subprocess, sys

WT = "/tmp/port"
ENV = dict(os.environ, GOFLAGS="-mod=mod", GOPROXY="off", GOSUMDB="off", GOTOOLCHAIN="local")


def rd(f):
    return open(os.path.join(WT, f)).read()


def wr(f, s):
    open(os.path.join(WT, f), "w").write(s)


def sub(f, old, new, count=1):
    s = rd(f)
    assert s.count(old) >= 1, (f, old[:60])
    wr(f, s.replace(old, new, count))


POP_LOOP = '''	for {
		var cleanup func()
		t.mu.Lock()
		if len(t.cleanups) > 0 {
			last := len(t.cleanups) - 1
			cleanup = t.cleanups[last]
			t.cleanups = t.cleanups[:last]
		}
		t.mu.Unlock()

		if cleanup == nil {
			break
		}

		err1 := runCleanup(cleanup)
		if err1 != nil && (err == nil || err.isInvalidData() || !err1.isInvalidData()) {
			err = err1
		}
	}
'''
MERGE = '''		err1 := runCleanup(cleanup)
		if err1 != nil && (err == nil || err.isInvalidData() || !err1.isInvalidData()) {
			err = err1
		}
'''
CTX_BLOCK = '''	// Context must be closed before t.Cleanup functions are run.
	t.mu.Lock()
	if t.cancelCtx != nil {
		t.cancelCtx()
		t.cancelCtx = nil
		t.ctx = nil
	}
	t.mu.Unlock()
'''
RECURSE = '''	// If a cleanup function ends the goroutine (runtime.Goexit),
	// we still want to run the remaining cleanup functions.
	defer func() {
		t.mu.Lock()
		recurse := len(t.cleanups) > 0
		t.mu.Unlock()

		if recurse {
			_ = t.cleanup()
		}
	}()
'''
CHECKONCE_TAIL = '''	defer func() { err = panicToError(recover(), 3) }() // outcome of prop itself, known before cleanup functions run
	prop(t)
	t.failOnError()

	return nil
}
'''
MV_HEAD = '''	t = newT(t.tb, t.s, flags.debug, nil)
	defer t.failOnError() // non-fatal failures signalled on the inner T should not be lost
'''


def swap_defers():  # C02a, C14g: failOnError runs before the cleanup functions
    sub("combinators.go", MV_HEAD, "	t = newT(t.tb, t.s, flags.debug, nil)\n")
    sub("combinators.go", "	return g.fn(t), true\n}\n\n// Deferred creates",
        "	defer t.failOnError() // non-fatal failures signalled on the inner T should not be lost\n\n	return g.fn(t), true\n}\n\n// Deferred creates")


def c09e():
    sub("engine.go", "in a cleanup function does not hide a failure of the test case\n		cleanupErr := t.cleanup()\n		if cleanupErr != nil && (err == nil || err.isInvalidData() || !cleanupErr.isInvalidData()) {",
        "in a cleanup function does not change the outcome of the test case\n		cleanupErr := t.cleanup()\n		if cleanupErr != nil && !cleanupErr.isInvalidData() {")


def c10a():
    sub("engine.go", POP_LOOP, '''	for {
		// Take the whole batch under a single lock acquisition
		// instead of re-locking for every function;
		// loop to pick up cleanups registered by cleanup functions.
		t.mu.Lock()
		cleanups := t.cleanups
		t.cleanups = nil
		t.mu.Unlock()

		if len(cleanups) == 0 {
			break
		}

		for i := len(cleanups) - 1; i >= 0; i-- {
			err1 := runCleanup(cleanups[i])
			if err1 != nil && (err == nil || err.isInvalidData() || !err1.isInvalidData()) {
				err = err1
			}
		}
	}
''')


def c10d():
    sub("combinators.go", '''		r := recover()
		_, skipped := r.(invalidData)
		err := t.cleanup()
''', '''		r := recover()
		_, skipped := r.(invalidData)
		if r != nil && !skipped {
			panic(r) // not ours to handle
		}

		// invalid data is not an error here, find() will retry
		err := t.cleanup()
''')


def c10e():
    s = rd("engine.go")
    old_head = '''	defer func() {
		// a cleanup function that panics decides the outcome, except that skipping
		// in a cleanup function does not hide a failure of the test case
		cleanupErr := t.cleanup()
'''
    assert old_head in s and CHECKONCE_TAIL in s
    s = s.replace(old_head, '''	// outcome of prop itself is known (and recorded in err) before cleanup functions run
	err = runProp(t, prop)
	{
		// a cleanup function that panics decides the outcome, except that skipping
		// in a cleanup function does not hide a failure of the test case
		cleanupErr := t.cleanup()
''')
    s = s.replace('''			err = &testError{data: failed, traceback: lateFailureTraceback}
		}
	}()

''' + CHECKONCE_TAIL, '''			err = &testError{data: failed, traceback: lateFailureTraceback}
		}
	}

	return err
}

// runProp calls prop once and converts the way it ended into a *testError (nil if the test case passed).
func runProp(t *T, prop func(*T)) (err *testError) {
	if t.tbLog {
		t.tb.Helper()
	}
	defer func() { err = panicToError(recover(), 3) }()

	prop(t)
	t.failOnError()

	return nil
}
''')
    wr("engine.go", s)


def c11c():
    s = rd("engine.go")
    assert RECURSE in s and CTX_BLOCK in s and POP_LOOP in s
    s = s.replace(RECURSE + "\n", "")
    s = s.replace(CTX_BLOCK, '''	// Context must be closed before t.Cleanup functions are run.
	// Take the registered functions in the same critical section,
	// instead of re-acquiring the lock for every single one of them.
	t.mu.Lock()
	if t.cancelCtx != nil {
		t.cancelCtx()
		t.cancelCtx = nil
		t.ctx = nil
	}
	cleanups := t.cleanups
	t.cleanups = nil
	t.mu.Unlock()

	// If a cleanup function ends the goroutine (runtime.Goexit),
	// we still want to run the remaining cleanup functions
	// (together with the ones that were registered in the meantime).
	defer func() {
		if len(cleanups) == 0 {
			return
		}

		t.mu.Lock()
		t.cleanups = append(cleanups, t.cleanups...)
		t.mu.Unlock()

		_ = t.cleanup()
	}()
''')
    s = s.replace(POP_LOOP, '''	for len(cleanups) > 0 {
		last := len(cleanups) - 1
		cleanup := cleanups[last]
		cleanups = cleanups[:last]

		err1 := runCleanup(cleanup)
		if err1 != nil && (err == nil || err.isInvalidData() || !err1.isInvalidData()) {
			err = err1
		}
	}
''')
    wr("engine.go", s)


def pool(name_new, with_release):  # C11f, C15g
    s = rd("engine.go")
    old = '''func newT(tb tb, s bitStream, tbLog bool, rawLog *log.Logger, refDraws ...any) *T {
	if tb == nil {
		tb = nilTB{}
	}

	t := &T{
		tb:       tb,
		tbLog:    tbLog,
		rawLog:   rawLog,
		s:        s,
		refDraws: refDraws,
	}
'''
    assert old in s
    s = s.replace(old, '''func newT(tb tb, s bitStream, tbLog bool, rawLog *log.Logger, refDraws ...any) *T {
	return new(T).init(tb, s, tbLog, rawLog, refDraws...)
}

// init prepares t for running a property (or a Custom generator function) against s.
func (t *T) init(tb tb, s bitStream, tbLog bool, rawLog *log.Logger, refDraws ...any) *T {
	if tb == nil {
		tb = nilTB{}
	}

	t.tb = tb
	t.tbLog = tbLog
	t.rawLog = rawLog
	t.s = s
	t.draws = 0
	t.refDraws = refDraws
''')
    if with_release:
        s = s.replace('''func (t *T) shouldLog() bool {''', '''// scopedTs holds Ts that are only needed while a single generator function runs
// (a Custom generator creates one for every attempt to produce a value).
var scopedTs = sync.Pool{New: func() any { return new(T) }}

// newScopedT is newT for a T that is given back with release() once its cleanup() is done.
func newScopedT(tb tb, s bitStream, tbLog bool) *T {
	return scopedTs.Get().(*T).init(tb, s, tbLog, nil)
}

// release should be called after cleanup(), which has dropped the context and the cleanup functions already.
func (t *T) release() {
	t.tb, t.s, t.rawLog = nil, nil, nil // do not keep the test and its bitstream alive
	scopedTs.Put(t)
}

func (t *T) shouldLog() bool {''', 1)
    wr("engine.go", s)
    if with_release:
        sub("combinators.go", MV_HEAD, '''	t = newScopedT(t.tb, t.s, flags.debug)
	defer t.release()
	defer t.failOnError() // non-fatal failures signalled on the inner T should not be lost
''')
    else:
        sub("combinators.go", MV_HEAD, '''	t = innerTs.Get().(*T).init(t.tb, t.s, flags.debug, nil)
	defer innerTs.Put(t)  // by now the context is canceled and all cleanup functions have been run
	defer t.failOnError() // non-fatal failures signalled on the inner T should not be lost
''')
        sub("combinators.go", '''func (g *customGen[V]) String() string {''', '''// innerTs recycles the T values handed to Custom generator functions: a Custom generator
// used as a collection element needs a fresh one for every attempt to produce an element,
// which adds up to a lot of garbage per test case.
var innerTs = sync.Pool{New: func() any { return new(T) }}

func (g *customGen[V]) String() string {''')


def c13f():
    # named results misused: ok doubles as "the generator function skipped"
    sub("combinators.go", '''		r := recover()
		_, skipped := r.(invalidData)
		err := t.cleanup()
''', '''		r := recover()
		skipped := false
		if r != nil {
			_, ok = r.(invalidData) // fn rejected the attempt as invalid (find retries with fresh data)
			skipped = ok
		}
		err := t.cleanup()
''')
    sub("combinators.go", '''		case err != nil:
			panic(err.data)
		case skipped:
			var zero V
			v, ok = zero, false
		}
''', '''		case err != nil:
			panic(err.data)
		}
''')
    sub("combinators.go", "func (g *customGen[V]) maybeValue(t *T) (v V, ok bool) {",
        "// maybeValue makes one attempt to produce a value; ok is false when fn rejected\n// the attempt as invalid (in which case find retries with fresh data).\nfunc (g *customGen[V]) maybeValue(t *T) (v V, ok bool) {")


def c03h():
    sub("combinators.go", '''	defer func() {
		r := recover()
		_, skipped := r.(invalidData)
		err := t.cleanup()
''', '''	ok = true
	defer func() {
		r := recover()
		_, skipped := r.(invalidData)
		err := t.cleanup()
''')
    sub("combinators.go", '''		case skipped:
			var zero V
			v, ok = zero, false
		}
	}()

	return g.fn(t), true
''', '''		case skipped:
			if msg, ok := r.(invalidData); ok {
				// fn gave up on this attempt (Skip, exhausted Filter, ...): let find() have another go
				t.Logf("[rapid] custom generator gave up: %v", string(msg))
				ok = false
			}
		}
	}()

	v = g.fn(t)

	return v, ok
''')


def c14b():
    sub("engine.go", '''		t.mu.Lock()
		recurse := len(t.cleanups) > 0
		t.mu.Unlock()
''', '''		t.mu.RLock()
		recurse := len(t.cleanups) > 0
		t.mu.RUnlock()
''')
    sub("engine.go", '''		var cleanup func()
		t.mu.Lock()
		if len(t.cleanups) > 0 {
			last := len(t.cleanups) - 1
			cleanup = t.cleanups[last]
			t.cleanups = t.cleanups[:last]
		}
		t.mu.Unlock()

		if cleanup == nil {
			break
		}

		err1 := runCleanup(cleanup)''', '''		// Most test cases register no cleanups at all,
		// a read lock is enough to find that out.
		t.mu.RLock()
		n := len(t.cleanups)
		t.mu.RUnlock()

		if n == 0 {
			break
		}

		t.mu.Lock()
		cleanup := t.cleanups[n-1]
		t.cleanups = t.cleanups[:n-1]
		t.mu.Unlock()

		err1 := runCleanup(cleanup)''')


def c14c():
    s = rd("engine.go")
    old = '''func (t *T) cleanup() (err *testError) {
	t.cleaning.Store(true)
	defer t.cleaning.Store(false)
'''
    assert old in s and CTX_BLOCK in s
    s = s.replace(CTX_BLOCK + "\n", "")
    s = s.replace(old, '''func (t *T) cleanup() (err *testError) {
	// Context must be closed before t.Cleanup functions are run.
	// This has to be done only once, not every time we restart
	// after a cleanup function has ended the goroutine.
	t.mu.Lock()
	if t.cancelCtx != nil {
		t.cancelCtx()
		t.cancelCtx = nil
		t.ctx = nil
	}
	t.mu.Unlock()

	return t.runCleanups()
}

// runCleanups calls the registered cleanup functions in last-in, first-out order.
func (t *T) runCleanups() (err *testError) {
	t.cleaning.Store(true)
	defer t.cleaning.Store(false)
''')
    s = s.replace("			_ = t.cleanup()\n		}\n	}()\n", "			_ = t.runCleanups()\n		}\n	}()\n")
    wr("engine.go", s)


def c15d():
    subprocess.run("git apply --3way /verif/seeded/C15d/patch.diff", cwd=WT, shell=True, capture_output=True)
    s = rd("strings.go")
    m = re.search(r"<<<<<<< ours\n(.*?)=======\n(.*?)>>>>>>> theirs\n", s, re.S)
    assert m, "no conflict found"
    theirs = m.group(2)
    # keep the empty-class guard of the repaired tree in front of the seeded one-liner
    theirs = theirs.replace("	case syntax.OpCharClass:\n", "	case syntax.OpCharClass:\n		if len(re.Rune) == 0 {\n			panic(invalidData(\"no possible regexp match\")) // empty class, like [^\\x00-\\x{10FFFF}]\n		}\n", 1)
    s = s[:m.start()] + theirs + s[m.end():]
    wr("strings.go", s)
    subprocess.run("git reset -q", cwd=WT, shell=True)


def c02g():
    sub("engine.go", "		if err1 != nil && (err == nil || err.isInvalidData() || !err1.isInvalidData()) {\n			err = err1\n		}\n	}\n\n	return err",
        "		if err1 != nil && err == nil {\n			err = err1 // report the root cause: the first cleanup function that panicked\n		}\n	}\n\n	return err")


def c02h():
    sub("engine.go", '''		// a cleanup function that panics decides the outcome, except that skipping
		// in a cleanup function does not hide a failure of the test case
		cleanupErr := t.cleanup()
		if cleanupErr != nil && (err == nil || err.isInvalidData() || !cleanupErr.isInvalidData()) {''',
        '''		// a cleanup function that panics (or skips) decides the outcome of a test case that has passed;
		// the failure of a test case is not hidden or replaced by what its cleanup functions do
		if cleanupErr := t.cleanup(); cleanupErr != nil && err == nil {''')


def c10g():
    s = rd("combinators.go")
    a = s.index("func (g *customGen[V]) value(t *T) V {")
    b = s.index("// Deferred creates a generator")
    s = s[:a] + '''func (g *customGen[V]) value(t *T) V {
	// fn gets its own T, so that its cleanup functions and context are not mixed up
	// with those of the caller; one T per generated value is enough, all tries share it
	t = newT(t.tb, t.s, flags.debug, nil)
	defer t.failOnError() // non-fatal failures signalled on the inner T should not be lost

	defer func() {
		// a cleanup function that panics decides the outcome
		if err := t.cleanup(); err != nil {
			if err.isInvalidData() {
				panic(err.data)
			}
			panic(err)
		}
	}()

	return find(g.maybeValue, t, small)
}

func (g *customGen[V]) maybeValue(t *T) (V, bool) {
	defer func() {
		if r := recover(); r != nil {
			if _, ok := r.(invalidData); !ok {
				panic(r)
			}
		}
	}()

	return g.fn(t), true
}

''' + s[b:]
    wr("combinators.go", s)


def c11h():
    sub("engine.go", '''		// a cleanup function that panics decides the outcome, except that skipping
		// in a cleanup function does not hide a failure of the test case
		cleanupErr := t.cleanup()
		if cleanupErr != nil && (err == nil || err.isInvalidData() || !cleanupErr.isInvalidData()) {
			err = cleanupErr
		}
		if failed, ok := t.resetFailed(); ok && (err == nil || err.isInvalidData()) {
			// non-fatal failure was signalled by a cleanup function, or was followed by skipping the test case''',
        '''		if cleanupErr := t.cleanup(); cleanupErr != nil {
			// a cleanup function that panics decides the outcome, except that skipping
			// in a cleanup function does not hide a failure of the test case
			if err == nil || err.isInvalidData() || !cleanupErr.isInvalidData() {
				err = cleanupErr
			}
		} else if failed, ok := t.resetFailed(); ok && (err == nil || err.isInvalidData()) {
			// cleanup functions ran to completion: non-fatal failure was signalled by one of them,
			// or was followed by skipping the test case''')


def c13d():
    sub("engine.go", '''		if failed, ok := t.resetFailed(); ok && (err == nil || err.isInvalidData()) {
			// non-fatal failure was signalled by a cleanup function, or was followed by skipping the test case
			err = &testError{data: failed, traceback: lateFailureTraceback}
		}
''', '''		err = t.finish(err)
''')
    sub("engine.go", '''// resetFailed clears the non-fatal failure of the current test case (if any) and returns it.
func (t *T) resetFailed() (stopTest, bool) {
	t.mu.Lock()
	defer t.mu.Unlock()

	failed, isFailed := t.failed, t.isFailed
	t.failed, t.isFailed = "", false

	return failed, isFailed
}
''', '''// finish ends the current test case: it clears the non-fatal failure flag (T can be reused for the
// next test case) and returns the final outcome. err is the panic that ended the test case or one of
// its cleanup functions, if any; it says more than a failure without a stack trace, so the pending
// non-fatal failure is only reported when there was no panic.
func (t *T) finish(err *testError) *testError {
	t.mu.Lock()
	defer t.mu.Unlock()

	failed, isFailed := t.failed, t.isFailed
	t.failed, t.isFailed = "", false

	if isFailed && err == nil {
		// non-fatal failure was signalled by a cleanup function
		return &testError{data: failed, traceback: lateFailureTraceback}
	}

	return err
}
''')


def c12g():
    s = rd("utils.go")
    a = s.index("func genUintNUnbiased(s bitStream, max uint64) uint64 {")
    b = s.index("func genUintN(s bitStream, max uint64, bias bool)")
    s = s[:a] + '''// drawUintN draws bitlen-wide values until one of them is not greater than max. Every attempt is
// recorded as a group of its own; groups of rejected attempts are marked to be discarded by prune().
// Draws wider than 64 bits stand for "overflow to max" and are recorded as all-ones blocks.
func drawUintN(s bitStream, bitlen int, max uint64) uint64 {
	for {
		i := s.beginGroup(intBitsLabel, true)
		u := s.drawBits(bitlen)
		ok := (bitlen > 64 && u == math.MaxUint64) || (bitlen <= 64 && u <= max)
		s.endGroup(i, !ok)
		if ok {
			return u
		}
	}
}

func genUintNUnbiased(s bitStream, max uint64) uint64 {
	return drawUintN(s, bits.Len64(max), max)
}

func genUintNBiased(s bitStream, max uint64) (uint64, bool, bool) {
	bitlen := bits.Len64(max)
	i := s.beginGroup(biasLabel, false)
	m := math.Max(8, (float64(bitlen)+48)/7)
	n := genGeom(s, 1/(m+1)) + 1
	s.endGroup(i, false)

	if int(n) < bitlen {
		bitlen = int(n)
	} else if int(n) > bitlen && int(n) >= 64-(16-int(m))*4 {
		bitlen = 65
	}

	u := drawUintN(s, bitlen, max)
	if bitlen > 64 {
		u = max
	}

	return u, u == 0 && n == 1, u == max && bitlen >= int(n)
}

''' + s[b:]
    wr("utils.go", s)


PORTS = {
    "C02a": swap_defers, "C14g": swap_defers, "C09e": c09e, "C10a": c10a, "C10d": c10d, "C10e": c10e, "C11c": c11c,
    "C11f": lambda: pool("innerTs", False), "C15g": lambda: pool("scopedTs", True), "C13f": c13f, "C03h": c03h,
    "C14b": c14b, "C14c": c14c, "C15d": c15d, "C02g": c02g, "C02h": c02h, "C10g": c10g, "C11h": c11h, "C13d": c13d, "C12g": c12g,
}


def main():
    ids = sys.argv[1:] or sorted(PORTS)
    head = subprocess.run("git -C /repo rev-parse --short HEAD", shell=True, capture_output=True, text=True).stdout.strip()
    for sid in ids:
        subprocess.run("git reset -q --hard HEAD && git clean -fdq", cwd=WT, shell=True, check=True)
        try:
            PORTS[sid]()
        except AssertionError as e:
            print(sid, "PORT FAILED", e)
            continue
        b = subprocess.run("gofmt -l . ; go build ./... && go vet . 2>&1 | head -5", cwd=WT, shell=True, env=ENV, capture_output=True, text=True)
        diff = subprocess.run("git diff HEAD", cwd=WT, shell=True, capture_output=True, text=True).stdout
        dst = "/tmp/seedport/%s/%s" % (sid[:3], sid)
        os.makedirs(dst, exist_ok=True)
        open(dst + "/patch.diff", "w").write(diff)
        src = "/verif/seeded/" + sid
        if not os.path.isdir(src):
            src = "/tmp/seedout4/%s/%s" % (sid[:3], sid)
        demo = src + "/demo_test.go.txt"
        if not os.path.exists(demo):
            demo = src + "/demo_test.go"
        shutil.copy(demo, dst + "/demo_test.go")
        meta = json.load(open(src + "/meta.json"))
        if "demo_cmd" not in meta:
            m = re.search(r"demo `([^`]*)`", meta.get("confirmed_by", ""))
            meta["demo_cmd"] = m.group(1) if m else "go test -run Test ."
        meta["summary"] = (meta.get("summary") or "") + " [re-expressed on /repo %s after the F15 repair restructured this code; same mistake, same place]" % head
        json.dump(meta, open(dst + "/meta.json", "w"), indent=1)
        print(sid, "ported; build:", (b.stdout + b.stderr).strip()[:300] or "ok", "; diff lines:", diff.count("\n"))
    subprocess.run("git reset -q --hard HEAD && git clean -fdq", cwd=WT, shell=True)


main()
